#!/usr/bin/env python3
"""keep_mutant.py <mutdir> <confirm-json-line> : copy a confirmed seeded change
into /verif/seeded/<id>/ (patch.diff, demo.rs, meta.json)"""
import json, sys, os, shutil, subprocess
src, conf = sys.argv[1], json.loads(sys.argv[2])
mid = os.path.basename(os.path.normpath(src))
ok = conf.get("applies") and conf.get("suite_missing", "x").strip() == "" and conf.get("demo_with_patch_rc") not in (0, None) \
    and conf.get("demo_without_patch_rc") == 0
if not ok:
    print("not confirmed:", mid, conf); sys.exit(1)
dst = os.path.join("/verif/seeded", mid)
os.makedirs(dst, exist_ok=True)
shutil.copy(os.path.join(src, "patch.diff"), dst)
shutil.copy(os.path.join(src, "demo.rs"), dst)
m = json.load(open(os.path.join(src, "meta.json")))
old = {}
if os.path.exists(os.path.join(dst, "meta.json")):
    old = json.load(open(os.path.join(dst, "meta.json")))
head = subprocess.check_output(["git", "-C", "/repo", "log", "-1", "--format=%h %s"], text=True).strip()
meta = {"id": mid, "property": m.get("property", mid[:3]), "summary": m.get("summary"), "needs": m.get("needs"),
        "author_ran": m.get("ran"),
        "confirmed": {"on": head, "how": "tools/confirm_mutant.sh in a scratch worktree of /repo HEAD: git apply patch.diff; "
                      "cargo test --workspace (42 stable tests of /root/.vp/BASELINE.json all pass); demo.rs as tests/demo_confirm.rs fails with the "
                      "patch and passes after git checkout -- src", "result": conf},
        "detection": old.get("detection", {})}
json.dump(meta, open(os.path.join(dst, "meta.json"), "w"), indent=1)
print("kept", mid)
