#!/usr/bin/env python3
"""Refresh the commit hashes in known_findings.json after /repo history was
rewritten (fixup + autosquash): each finding id maps, through
tools/finding_subjects.json, to a substring of its fix commit's subject."""
import json, subprocess, sys, os
V = os.path.dirname(os.path.dirname(os.path.abspath(__file__)))
subj = json.load(open(os.path.join(V, "tools/finding_subjects.json")))
log = subprocess.check_output(["git", "-C", "/repo", "log", "--format=%h %s"], text=True).splitlines()
kf = json.load(open(os.path.join(V, "known_findings.json")))
bad = 0
for f in kf["findings"]:
    s = subj.get(f["id"])
    if not s or f.get("status") != "fixed":
        continue
    m = [l for l in log if s in l and l.split(" ", 1)[1].startswith("fix:")]
    if len(m) != 1:
        print("!! %s: %d commits match %r" % (f["id"], len(m), s)); bad += 1; continue
    h = m[0].split()[0]
    if h != f["commit"]:
        f["line"] = f["line"].replace(f["commit"], h)
        f["commit"] = h
json.dump(kf, open(os.path.join(V, "known_findings.json"), "w"), indent=1)
sys.exit(1 if bad else 0)
