#!/bin/bash
# Demonstrates that the trace specification binds: a recorded execution is accepted, the same trace
# with ONE field corrupted (a token a read returned / the block number of a backend write / a dropped
# fsync completion) is not.
set -e
V=/verif; W=$V/work/binding_demo; rm -rf $W; mkdir -p $W
cat > $W/s.ndjson <<'EOS'
{"name":"demo","bsb":9,"images":[{"kind":"build","desc":{"cb":10,"ro":4,"vclusters":8,"shuffle":0,"holes":0,"clusters":[{"g":1,"kind":"data","wid":1}]}}],"params":{"l2":[9,1024],"rb":[9,1024]},"sched":{"policy":"fifo","seed":1},"steps":[{"op":"write","gb":5,"n":3},{"op":"read","gb":4,"n":6},{"op":"flush"},{"op":"fsync"},{"op":"reopen"},{"op":"read","gb":0,"n":16}]}
EOS
$V/harness/target/debug/qv run $W/s.ndjson $W/t.ndjson > /dev/null
tlc_run() { (cd $V/spec && TRACE=$1 DEFS=$W/t.ndjson.defs MODE=crash KNOWN= JAVA_TOOL_OPTIONS="-Xss1g -Dtlc2.tool.queue.IStateQueue=StateDeque" \
   tlc -workers 1 -metadir $W/states -cleanup -noGenerateSpecTE -config Qcow2Env.cfg Qcow2Env.tla 2>&1 | grep -E '^"@@' | sed 's/\\"/"/g' | grep -E 'ACCEPT|REACHED|VIOL' | cut -c1-160); }
echo "== original trace"; tlc_run $W/t.ndjson
python3 - $W <<'EOP'
import json, sys
W = sys.argv[1]
ev = [json.loads(l) for l in open(W + "/t.ndjson")]
def dump(name, evs):
    open(f"{W}/{name}.ndjson", "w").write("\n".join(json.dumps(e) for e in evs) + "\n")
# (a) a read returns a different token for one block
a = json.loads(json.dumps(ev))
for e in a:
    if e["e"] == "Ret" and e.get("toks") and any(t != 0 for t in e["toks"]):
        i = [k for k, t in enumerate(e["toks"]) if t != 0][0]; e["toks"][i] += 1; break
dump("a", a)
# (b) a metadata write lands one block further
b = json.loads(json.dumps(ev))
for e in b:
    if e["e"] == "Req" and e["k"] == "W" and any(x[0] == "m" for x in e["bl"]):
        e["blk"] += 1; break
dump("b", b)
# (c) the completion of the first fsync is not recorded
c = json.loads(json.dumps(ev)); sid = None
for e in c:
    if e["e"] == "Req" and e["k"] == "S": sid = e["id"]; break
c = [e for e in c if not (e["e"] == "Done" and e["id"] == sid)]
dump("c", c)
EOP
echo "== (a) one read token changed"; tlc_run $W/a.ndjson
echo "== (b) one metadata write moved by one block"; tlc_run $W/b.ndjson
echo "== (c) one fsync completion removed"; tlc_run $W/c.ndjson
