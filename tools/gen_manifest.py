#!/usr/bin/env python3
"""regenerate MANIFEST.json from the table below (single source of truth)"""
import json, os, subprocess
V = os.path.dirname(os.path.dirname(os.path.abspath(__file__)))
props = [json.loads(l) for l in open(os.path.join(V, "properties.jsonl"))]
NOTE = ("trusted: bytes->abstract-block decoder (harness/src/decode.rs), SimFile == spec HostFile semantics, "
        "single-threaded executor (tasks interleave at awaits only); bounded: seeded histories/schedules over geometry families G1-G6, not exhaustive")
TECH = "TLA+ envelope spec (spec/Qcow2Env.tla) + TLC trace validation of real executions"
TECHS = {"C13": "TLA+ class enumeration (GenArgs.tla) + Validate.tla decision table + TLC trace validation",
         "C14": "TLA+ class enumeration and refusal rule (HeaderAccept.tla) + TLC trace validation, process-isolated runs",
         "C15": "TLA+ transcription of the codecs (Codec.tla) as test-vector generator with expected results",
         "C19": "TLA+ host-file model (HostFile.tla) as exhaustive sequence generator with expected results, replayed on every backend",
         "C20": "TLA+ class enumeration (Cli.tla) + TLC judgement of formatted images (Qcow2Format.tla)"}
C = {
 "C01": ("model_checking", "Every read_at result of seeded sequential histories on the real Qcow2Dev must be a value of the FlatDisk model and have the full length (Inv_C01, Inv_C01len); TLC evaluates them at every step of every recorded execution.", "7 C01"),
 "C02": ("model_checking", "After every successful flush_meta the spec's own qcow2 reader (Qcow2Format.GuestBlock over the abstract host file) must give the FlatDisk content for every guest block (Inv_C02); reopen sweeps with same/different parameters are validated against it.", "7 C02"),
 "C03": ("model_checking", "After every successful flush_meta TLC evaluates WellFormed and Exact (independent refcount walk in Qcow2Format.tla) on the abstract host file of the recorded execution (Inv_C03).", "7 C03"),
 "C04": ("model_checking", "TLC branches a Crash action at the end of every fsync epoch of every recorded execution over the per-block subsets of un-synced metadata-relevant requests and evaluates Safe(image) (Inv_C04) on every distinct crash image.", "7 C04"),
 "C05": ("model_checking", "Same crash branching; Inv_C05: on every crash image the spec's reader returns, per guest block, the value at the last sync point (flush_meta Ok then fsync_range Ok) or the value of a later operation.", "7 C05"),
 "C06": ("model_checking", "Groups of overlapping calls under seeded random/PCT schedules owned by the deterministic executor; TLC searches placements of per-block linearization points (silent LinOther steps) that explain every Ret; final sweeps, flush and reopen sweeps must equal the linearized FlatDisk.", "7 C06"),
 "C07": ("model_checking", "Groups of 2-5 overlapping calls with 2-slice caches under seeded random/PCT schedules; the deterministic executor detects deadlock (unfinished tasks, nothing runnable, nothing in flight) and livelock (step budget), panics are caught as events; Inv_C07a (no Stuck/Panic) and Inv_C07b (Err only for invalid arguments or a backend fault) on every recorded execution.", "7 C07"),
 "C08": ("model_checking", "Hook H1 samples the in-ram metadata view after every scheduler step; TLC evaluates Inv_C08 on it (no host cluster referenced twice, refcount >= references, hook-allocated clusters owned by nobody else); allocation histories driven through hook H3 incl. concurrent allocators: Inv_C08alloc (aligned contiguous run <= requested of clusters that were free, given to one requester); write/discard cycles with a bound on the host file length.", "7 C08"),
 "C09": ("model_checking", "Independently built images over cluster_bits 9-21 x refcount_order 0-6 x v2/v3 (zero, preallocated zero, compressed incl. straddling, short L1, backing chains) opened with default and custom parameters: Inv_C09map (get_mapping of every guest cluster = the spec's L2 reading), sweeps = FlatDisk, Inv_C09info (derived geometry = spec/Geometry.tla); library-formatted images over (size, cluster_bits, refcount_order, block size): Inv_C09fmt (WellFormed and Exact) and usable.", "7 C09"),
 "C10": ("model_checking", "Partial/straddling writes over backing-provided and compressed clusters of independently built chains; FlatDisk initial content = builder ground truth of the chain, so the COW merge is checked by Inv_C01/C02; Inv_C10 forbids any non-read request on read-only devices; exact release of compressed clusters is Inv_C03 after flush.", "7 C10"),
 "C11": ("model_checking", "discard over (offset, len) classes x cluster states x with/without backing; the FlatDisk model applies the C11 contract by cluster kind; sweeps after every discard, Inv_C03 after flush (space released), reopen sweep.", "7 C11"),
 "C12": ("model_checking", "Histories crossing refblock capacity (64-bit refcounts x 512-byte clusters), images with fewer L1 entries than needed, allocations across refblock-slice boundaries; C01-C05 invariants incl. crash branching on those executions.", "7 C12"),
 "C13": ("model_checking", "spec/GenArgs.tla enumerates op x offset class x length class exhaustively; classes are instantiated with concrete u64 values per geometry and device mode; Validate.tla decides the admissible outcome; Inv_C13 forbids modifying requests during rejected calls; sweeps check content is unchanged; panics are violations.", "7 C13"),
 "C14": ("model_checking", "spec/HeaderAccept.tla enumerates structured malformations (field x class: all singles, pairs in the thorough tier) and decides which must be refused; each is applied to an independently built valid image and run in its own process (address-space limit, alarm): Inv_C14open (no panic; unsupported features refused), Inv_C14run (no panic/hang in any later operation), process death and heap use out of proportion are violations.", "7 C14"),
 "C15": ("model_checking", "spec/Codec.tla transcribes the codecs (L2 standard and compressed descriptors by class and boundary, reserved bits, refcount packing for every width x index x boundary value x background, header/extension/backing-name round trip, guest address split) and TLC prints every vector of the enumerated domain with its expected result; the public meta API is run on each vector (exhaustive over the enumerated finite domains).", "7 C15"),
 "C16": ("model_checking", "Inv_C16 on every backend request event of every recorded execution (offset, length and buffer address modulo block size).", "7 C16"),
 "C17": ("fault_enumeration", "For each history one run per backend request index (read/write/punch/fsync, every third a partial write), one with all requests failing, one with hole punching unsupported; then recovery by repeated flush_meta, sweep, reopen, sweep. TLC: failed calls may or may not have taken effect (set-valued FlatDisk), Inv_C07a/b, Inv_C17 (after recovery Safe and every acknowledged write readable).", "7 C17"),
 "C19": ("model_checking", "spec/HostFile.tla (the reference host-file model; SimFile implements it) enumerates every request sequence up to depth 2/3 plus random walks, with the expected result of each request and the final file; each is executed on SimFile, Qcow2IoTokio, Qcow2IoSync (buffered and O_DIRECT) and Qcow2IoUring on real files and compared; seeded guest histories are executed on every backend and compared with the SimFile run.", "7 C19"),
 "C20": ("exploration", "spec/Cli.tla enumerates the class product (raw size x content for convert, size x cluster_bits x refcount_order for format, leaks x shape for check); the freshly built rqcow2 is run under a timeout on an instance of every class: convert round trip must reproduce the zero-padded input with exit 0; format output is decoded and judged by Inv_C09fmt in TLC; Qcow2Dev::check() verdict vs Leaked(image) by Inv_C20.", "7 C20"),
 "C18": ("model_checking", "need_flush_meta() sampled by the executor after every scheduler step; Inv_C18 at every quiescent point with the flag clear (file content = FlatDisk, image safe) on schedules overlapping writers/discarders with flush_meta/shrink_caches; violations count only on accepting (consistently linearized) paths.", "7 C18"),
}
checks = []
for pid, (cat, text, ref) in sorted(C.items()):
    checks.append(dict(property_id=pid, quick_cmd=f"./check {pid} --tier quick", thorough_cmd=f"./check {pid} --tier thorough",
                       evidence_file=f"evidence/{pid}.json", replay_cmd_template=f"./check {pid} --replay {{path}}", engine="tlc-trace",
                       level_claimed=dict(category=cat, text=text, design_ref="DESIGN.md section " + ref),
                       level_note=NOTE, technique=TECHS.get(pid, TECH)))
hooks = subprocess.run(["git", "-C", "/repo", "log", "--format=%H %s"], capture_output=True, text=True).stdout.splitlines()
hook_commits = [l.split()[0] for l in hooks if l.split(" ", 1)[1].startswith("verif:")]
m = {
 "version": 1,
 "setup_cmd": "cd /verif/harness && cp -n /repo/Cargo.lock Cargo.lock; cargo build --offline --quiet && cd /verif/spec && tla-sany Qcow2Env.tla >/dev/null",
 "hooks": {"guard": "qcow2_rs_verif", "enable": "the harness builds /repo as a path dependency with rustflags --cfg qcow2_rs_verif (harness/.cargo/config.toml)",
           "baseline_off_cmd": "/verif/baseline.sh", "source_commits": hook_commits, "add_only": True},
 "engines": [{"name": "tlc-trace", "path": "spec/Qcow2Env.tla", "serves_properties": sorted(C), "kind_free_text": "TLA+ envelope specification; TLC validates ndjson traces recorded from the real code (harness/), all Inv_Cxx evaluated on every distinct state, crash images branched inside TLC"},
             {"name": "harness", "path": "harness/", "serves_properties": sorted(C), "kind_free_text": "Rust: SimFile Qcow2IoOps backend, deterministic executor, independent image builder and decoder, trace writer"}],
 "checks": checks,
 "not_applicable": [{"property_id": p["id"], "reason": "check not built yet (construction in progress, see DESIGN.md section 12)"} for p in props if p["id"] not in C],
 "notes": "under construction; see DESIGN.md. Genuine defects found so far are repaired by 'fix:' commits in /repo and listed in known_findings.json",
}
json.dump(m, open(os.path.join(V, "MANIFEST.json"), "w"), indent=1)
print("claimed", sorted(C))
