#!/bin/bash
# usage: confirm_mutant.sh <mutdir> -- confirm a seeded change in a scratch worktree of /repo HEAD:
#   applies, suite's 42 stable tests pass with it, demo fails with it, demo passes without it
M=$(readlink -f $1); N=$(basename $M); W=/tmp/confirm_$N
rm -rf $W; git -C /repo worktree add -q --detach $W HEAD || exit 2
cd $W
res="{\"mutant\":\"$N\""
if git apply $M/patch.diff 2>/dev/null; then res="$res,\"applies\":true"; else res="$res,\"applies\":false}"; echo $res; cd /; git -C /repo worktree remove --force $W; exit 0; fi
out=$(cargo test --workspace --no-fail-fast --offline -- --test-threads 8 2>&1)
pass=$(echo "$out" | grep -E "^test .* \.\.\. ok$" | sed -E 's/^test (.*) \.\.\. ok$/\1/' | sed 's/.*:://' | sort -u)
want=$(python3 -c "
import json
for t in json.load(open('/root/.vp/BASELINE.json'))['stable_pass']: print(t.split('::')[-1])" | sort -u)
missing=$(comm -13 <(echo "$pass") <(echo "$want") | tr '\n' ' ')
res="$res,\"suite_missing\":\"$missing\""
cp $M/demo.rs tests/demo_confirm.rs
cargo test --offline --test demo_confirm >/tmp/confirm_$N.with.log 2>&1; with=$?
git checkout -q -- src
cargo test --offline --test demo_confirm >/tmp/confirm_$N.without.log 2>&1; without=$?
res="$res,\"demo_with_patch_rc\":$with,\"demo_without_patch_rc\":$without}"
echo $res
cd /; git -C /repo worktree remove --force $W
