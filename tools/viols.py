#!/usr/bin/env python3
import json,glob,collections,sys,re
P=sys.argv[1]; n=int(sys.argv[2]) if len(sys.argv)>2 else 25
c=collections.Counter(); ex={}
for f in glob.glob(f'/verif/replays/{P}/*.json'):
    b=json.load(open(f)); w=b['why']
    m=re.match(r'(\S+) line (-?\d+): (\S+) (.*)',w)
    if m:
        name,line,tag,det=m.groups()
        try:
            d=json.loads(det)
            if tag=='C13' and isinstance(d,list) and isinstance(d[2],dict): key=(tag,d[0],d[1],'ro=%d'%d[2]['ro'],'oa=%d la=%d lz=%d pos=%s end=%s'%(d[2]['oa'],d[2]['la'],d[2]['lz'],d[2]['pos'],d[2]['end']),str(d[3:]))
            elif tag=='C13': key=(tag,json.dumps(d)[:150])
            else: key=(tag,det[:160])
        except Exception: key=(tag,det[:160])
    else: key=('?',w[:200]); name=w.split(':')[0]
    c[key]+=1; ex.setdefault(key,(name,f[-17:]))
for k,v in c.most_common(n): print(v,ex[k],*k)
