#!/bin/bash
# Binding of spec/MetaFlush.tla to the code.  For each ordering rule of the model:
#   (a) TLC: the model without the rule violates CrashSafe (done by every run of ./check C04);
#   (b) the code without the rule = the tree with the corresponding repair reverted: the regress
#       scenario of that finding must violate the envelope's crash invariant (./check C04 --replay).
# A repair whose revert no longer applies cleanly (later repairs touched the same lines) is reported as such.
cd /verif
if [ -n "$(git -C /repo status --porcelain --untracked-files=no)" ]; then echo "/repo is not clean"; exit 2; fi
rules=( "RuleRcFirst|D45|let go of the L2 slice between its refcount flush|regress/D45-cow-slice-write-vs-concurrent-mapping.json"
        "RuleBarrier|D46|did not wait for a write-back of its L2 slice|regress/D46-discard-vs-foreign-slice-writeback.json"
        "RuleBarrier|D47|compressed COW could fsync before a write-back|regress/D47-comp-cow-fsync-vs-foreign-writeback.json"
        'RuleMutex|D18|mistook "clean" for "durable"|regress/D18-concurrent-refcount-flush-race.json'
        "RuleUnmapFirst|D11|refcount drop reach the disk before the unmapping|regress/D11-discard-refcount-before-unmap.json" )
for r in "${rules[@]}"; do
  IFS='|' read -r rule fid subj reg <<< "$r"
  c=$(git -C /repo log --format='%h %s' | grep -F "$subj" | grep ' fix:' | head -1 | cut -d' ' -f1)
  [ -z "$c" ] && c=$(git -C /repo log --format='%h %s' | grep -F "$subj" | head -1 | cut -d' ' -f1)
  if [ -z "$c" ]; then echo "$rule $fid: commit not found"; continue; fi
  if git -C /repo revert -n "$c" >/dev/null 2>&1; then
    out=$(./check C04 --replay "$reg" 2>&1); rc=$?
    echo "$rule $fid ($c reverted): replay of $reg -> exit $rc $(echo "$out" | grep -c '^VIOLATION') violation line(s)"
  else
    echo "$rule $fid ($c): the repair cannot be reverted cleanly any more (later repairs changed the same lines)"
  fi
  git -C /repo revert --abort >/dev/null 2>&1; git -C /repo reset -q --hard HEAD
done
