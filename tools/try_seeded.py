#!/usr/bin/env python3
"""try_seeded.py <id> [CHECK ...] [--tier T] : apply seeded/<id>/patch.diff to /repo, run the
check(s) (default: the change's own property), record the outcome in meta.json, undo."""
import json, sys, os, subprocess, time
args = [a for a in sys.argv[1:] if not a.startswith("--")]
tier = "quick"
if "--tier" in sys.argv:
    tier = sys.argv[sys.argv.index("--tier") + 1]; args.remove(tier)
mid = args[0]
d = os.path.join("/verif/seeded", mid)
meta = json.load(open(os.path.join(d, "meta.json")))
checks = args[1:] or [meta["property"]]
if subprocess.run(["git", "-C", "/repo", "status", "--porcelain", "--untracked-files=no"], capture_output=True, text=True).stdout.strip():
    print("/repo is not clean"); sys.exit(2)
if subprocess.run(["git", "-C", "/repo", "apply", os.path.join(d, "patch.diff")]).returncode:
    print("patch does not apply"); sys.exit(2)
try:
    for c in checks:
        t0 = time.time()
        p = subprocess.run(["/verif/check", c, "--tier", tier], capture_output=True, text=True)
        out = p.stdout + p.stderr
        vl = [l for l in out.splitlines() if l.startswith("VIOLATION")]
        why = [l.strip() for l in out.splitlines() if l.strip().startswith("violation:")][:2]
        res = {"check": c, "tier": tier, "exit": p.returncode, "violations": len(vl), "first": [w[:300] for w in why],
               "seconds": round(time.time() - t0)}
        if p.returncode == 2:
            res["tool_error"] = out[-400:]
        meta.setdefault("detection", {})[f"{c}:{tier}"] = res
        print(mid, json.dumps(res)[:500])
finally:
    subprocess.run(["git", "-C", "/repo", "checkout", "--", "."])
    json.dump(meta, open(os.path.join(d, "meta.json"), "w"), indent=1)
