#!/bin/bash
# usage: tools_one.sh <scenario.ndjson> [mode] [known]  -- run scenarios + TLC, print @@ lines
set -e
D=$(dirname $(readlink -f $1))
/verif/harness/target/debug/qv run $1 $D/one.trace > $D/one.summ
cd /verif/spec
TRACE=$D/one.trace DEFS=$D/one.trace.defs MODE=$2 KNOWN=$3 JAVA_TOOL_OPTIONS="-Xss1g -Dtlc2.tool.queue.IStateQueue=StateDeque" tlc -workers 1 -metadir $D/states -cleanup -noGenerateSpecTE -config Qcow2Env.cfg Qcow2Env.tla 2>&1 | grep -E '^"@@|Error|rror:|states generated|line [0-9]+, col' | sed 's/\\"/"/g' | cut -c1-${CUT:-400}
