"""Per-property checks: scenario families, what is decided by which part of
the specification, verdict + evidence."""
import argparse, shutil, re
import zlib
import json
import os
import random
import sys
import time

import qvlib as Q
import scen_gen as S


# --------------------------------------------------------------------------
# scenario families

def fam_seq(tier, seed, tag, nruns, nops, shaped=0.5, weights=None, geoms=None, sweep_every=4):
    """sequential histories over the geometry families and image shapes"""
    rng = random.Random(seed * 7919 + zlib.crc32(tag.encode()) % 1000)
    G = S.geoms(tier)
    names = geoms or list(G.keys())
    out = []
    for i in range(nruns):
        gname = names[i % len(names)]
        geo = G[gname]
        r = rng.random()
        if r < shaped:
            images = [S.image_shaped(rng, geo, 1, frac=rng.choice([0.15, 0.4]),
                                     kinds=("data", "zero", "zero_prealloc"))]
        elif r < shaped + 0.2:
            images = [S.image_plain(geo, "format")]
        else:
            images = [S.image_plain(geo, "build", shuffle=rng.randrange(1 << 20), holes=rng.choice([0, 2]))]
        steps = S.seq_history(rng, geo, nops, sweep_every=sweep_every, weights=weights,
                              reopen_params=S.alt_params(geo))
        out.append(S.mk(f"{tag}-{gname}-{i}", geo, images, steps))
    return out


def fam_backing(tier, seed, tag, nruns, nops, comp=True):
    """images with backing chains and compressed clusters (COW sources)"""
    rng = random.Random(seed * 104729 + zlib.crc32(tag.encode()) % 1000)
    G = S.geoms(tier)
    names = [n for n in G if n not in ("G5",)]
    out = []
    for i in range(nruns):
        gname = names[i % len(names)]
        geo = G[gname]
        kinds = ("data", "zero", "zero_prealloc", "comp") if comp else ("data", "zero")
        top = S.image_shaped(rng, geo, 1, frac=rng.choice([0.1, 0.3]), kinds=kinds)
        images = [top]
        depth = rng.choice([0, 1, 1, 2])
        for d in range(depth):
            # lower layers: possibly shorter / longer than the top image
            vc = geo["vclusters"] + rng.choice([0, 0, -geo["vclusters"] // 3, 8])
            images.append(S.image_shaped(rng, geo, 2 + d, frac=0.5, kinds=("data", "zero"), vclusters=vc))
        steps = S.seq_history(rng, geo, nops, sweep_every=3,
                              weights=dict(write=45, read=15, discard=10, flush=10, reopen=5, shrink=3),
                              reopen_params=S.alt_params(geo))
        out.append(S.mk(f"{tag}-{gname}-{i}", geo, images, steps))
    return out


def fam_conc(tier, seed, tag, nruns, geoms=("G1", "G2", "G2k", "G4"), policies=("random", "pct"), groups=2,
             maxops=4, with_flush=True, backing=False):
    """concurrent groups: sets of 2..maxops calls that overlap in time,
    scheduled by seeded random / PCT policies at every suspension point"""
    rng = random.Random(seed * 15485863 + zlib.crc32(tag.encode()) % 1000)
    G = S.geoms(tier)
    out = []
    for i in range(nruns):
        gname = geoms[i % len(geoms)]
        geo = G[gname]
        bpc = 1 << (geo["cb"] - geo["bsb"])
        if backing:
            images = [S.image_shaped(rng, geo, 1, frac=0.2, kinds=("data", "zero", "comp")),
                      S.image_shaped(rng, geo, 2, frac=0.6, kinds=("data", "zero"))]
        else:
            images = [S.image_shaped(rng, geo, 1, frac=rng.choice([0.0, 0.2]), kinds=("data", "zero", "zero_prealloc"))]
        steps = []
        # prelude
        for _ in range(rng.randrange(0, 4)):
            gb, n = S.rand_range(rng, geo)
            steps.append({"op": "write", "gb": gb, "n": n})
        if rng.random() < 0.6:
            steps.append({"op": "flush"})
        if rng.random() < 0.3:
            steps.append({"op": "shrink"})
        for g in range(groups):
            ops = []
            nops = rng.randrange(2, maxops + 1)
            # a focus cluster that several calls hit
            fc = rng.randrange(geo["vclusters"])
            for k in range(nops):
                r = rng.random()
                if r < 0.5:
                    if rng.random() < 0.6:
                        # sub-range of / around the focus cluster
                        gb = fc * bpc + rng.randrange(bpc)
                        n = rng.randrange(1, bpc + 2)
                    else:
                        gb, n = S.rand_range(rng, geo)
                    n = max(1, min(n, geo["vclusters"] * bpc - gb))
                    ops.append({"op": "write", "gb": gb, "n": n})
                elif r < 0.7:
                    gb = fc * bpc
                    n = min(bpc * rng.randrange(1, 3), geo["vclusters"] * bpc - gb)
                    if rng.random() < 0.5:
                        gb, n = S.rand_range(rng, geo)
                    ops.append({"op": "read", "gb": gb, "n": n})
                elif r < 0.8:
                    gb = max(0, fc - rng.randrange(0, 2)) * bpc
                    n = min(bpc * rng.randrange(1, 3), geo["vclusters"] * bpc - gb)
                    ops.append({"op": "discard", "gb": gb, "n": n})
                elif r < 0.93 and with_flush:
                    ops.append({"op": "flush"})
                elif with_flush:
                    ops.append({"op": "shrink"})
                else:
                    gb, n = S.rand_range(rng, geo)
                    ops.append({"op": "read", "gb": gb, "n": n})
            steps.append({"op": "par", "ops": ops})
            steps.append({"op": "sweep"})
        steps += [{"op": "flush"}, {"op": "sweep"}, {"op": "reopen"}, {"op": "sweep"}]
        pol = policies[i % len(policies)]
        out.append(S.mk(f"{tag}-{gname}-{i}", geo, images, steps,
                        sched={"policy": pol, "seed": rng.randrange(1 << 30)}))
    return out


def fam_wide(tier, seed, tag, nruns):
    """sparse histories over images with many L1 entries (L1 table spanning
    several blocks, empty L1 regions between populated ones): targeted reads
    instead of full sweeps"""
    rng = random.Random(seed * 2654435761 % (1 << 31) + zlib.crc32(tag.encode()) % 1000)
    out = []
    for i in range(nruns):
        if i % 2 == 0:
            geo = dict(cb=9, ro=4, bsb=9, vclusters=64 * rng.choice([66, 70, 130]), params={"l2": [9, 1024], "rb": [9, 1024]})
        else:
            geo = dict(cb=10, ro=4, bsb=9, vclusters=128 * rng.choice([5, 9]), params={"l2": [9, 1536], "rb": [9, 1024]})
        bpc = 1 << (geo["cb"] - geo["bsb"])
        l2n = (1 << geo["cb"]) // 8
        nl1 = geo["vclusters"] // l2n
        # populated L1 indices: first, some beyond one L1 block, the last
        pop = sorted(set([0, nl1 - 1] + [rng.randrange(nl1) for _ in range(3)] + ([64, 65] if nl1 > 66 else [2])))
        images = [S.image_plain(geo, "build", shuffle=rng.randrange(1 << 20))]
        touched = set()
        steps = []

        def rd():
            for c in sorted(touched):
                steps.append({"op": "read", "gb": c * bpc, "n": bpc})
            # multi-cluster reads that start inside one L1 entry's range (often one without an L2 table)
            # and end inside the next one's
            for i1 in pop[1:]:
                if rng.random() < 0.5:
                    k = rng.choice([1, 2, l2n // 2, l2n - 1])
                    lo = max(0, i1 * l2n - k)
                    n = min(geo["vclusters"] - lo, k + rng.choice([1, 2, 3]))
                    steps.append({"op": "read", "gb": lo * bpc + rng.randrange(bpc), "n": (n - 1) * bpc + 1})

        for k in range(rng.randrange(10, 22)):
            i1 = rng.choice(pop)
            c = i1 * l2n + rng.choice([0, 1, l2n - 1, rng.randrange(l2n)])
            r = rng.random()
            if r < 0.6:
                n = rng.choice([1, bpc, 2 * bpc + 1])
                gb = c * bpc + rng.randrange(bpc)
                n = max(1, min(n, geo["vclusters"] * bpc - gb))
                steps.append({"op": "write", "gb": gb, "n": n})
                for b in range(gb, gb + n):
                    touched.add(b // bpc)
            elif r < 0.75:
                # discard spanning empty L1 regions: starts mid-way in one L1 region, ends in another
                a, b_ = sorted([rng.choice(pop), rng.choice(pop)])
                lo = a * l2n + rng.choice([0, l2n // 2, l2n - 2])
                hi = min(geo["vclusters"], b_ * l2n + rng.choice([1, 2, l2n // 2, l2n]))
                if rng.random() < 0.5 and a > 0:
                    lo = (a - 1) * l2n + l2n // 2 + rng.randrange(3)      # start inside an (often empty) region before
                steps.append({"op": "discard_raw", "off": str(lo << geo["cb"]), "len": str(max(1, hi - lo) << geo["cb"])})
                rd()
            elif r < 0.9:
                steps.append({"op": "flush"})
                if rng.random() < 0.4:
                    steps.append({"op": "reopen"})
                    rd()
            else:
                steps.append({"op": "shrink"})
        rd()
        steps += [{"op": "flush"}]
        rd()
        steps += [{"op": "reopen"}]
        rd()
        out.append(S.mk(f"{tag}-{i}", geo, images, steps))
    return out


def fam_growth(tier, seed, tag, nruns, conc=False, faults=False):
    """metadata growth at far host offsets with small images: hook H4 puts the
    allocator's free hint just before (a) a refblock boundary, (b) the last
    entry of a refcount-table block, (c) the end of the refcount table (the
    table has to be enlarged and relocated, the header switched), (d) far
    behind it (growth that skips entries); and header L1 growth at L1-block
    boundaries"""
    rng = random.Random(seed * 9176 + zlib.crc32(tag.encode()) % 1000)
    out = []
    gl = [dict(cb=9, ro=6, bsb=9, vclusters=400, params={"l2": [9, 1024], "rb": [9, 1024]}),     # rbn 64, 64 rt entries / cluster
          dict(cb=9, ro=5, bsb=9, vclusters=300, params={"l2": [9, 1024], "rb": [9, 1024]}),     # rbn 128
          dict(cb=10, ro=6, bsb=9, vclusters=300, params={"l2": [9, 1536], "rb": [9, 1024]})]    # rbn 128, 128 rt entries, 2 slices per refblock
    for i in range(nruns):
        geo = dict(gl[i % len(gl)] if i % 4 != 3 else gl[0])
        bpc = 1 << (geo["cb"] - geo["bsb"])
        vc = geo["vclusters"]
        rbn = ((1 << geo["cb"]) * 8) >> geo["ro"]
        rte = (1 << geo["cb"]) // 8
        mode = i % 4
        # the hint is always the first cluster of a refblock that does not exist yet (what the allocator itself
        # leaves behind when a refblock is used up): the boundary behind it is reached by filling that refblock
        if mode == 0:
            hint = rbn * rng.choice([2, 5, 17])
        elif mode == 1:
            hint = rbn * 62                                      # next: reftable entry 63 (last of a 512-byte block)
        elif mode == 2:
            hint = rbn * (rte - 1)                               # next: behind the end of the table
        else:
            hint = rbn * (rte + rng.choice([0, 1, 3]))           # already behind it
        nfill = rng.randrange(4, 20)
        images = [S.image_shaped(rng, geo, 1, frac=nfill / vc, kinds=("data", "zero"), shuffle=0)]
        steps = []
        order = list(range(vc))
        rng.shuffle(order)
        big = rbn // 16
        nw = rng.randrange(24, 40)

        def wr(c):
            n = rng.choice([1, 2, big, big, big + 1])
            gb = c * bpc + rng.randrange(bpc)
            return {"op": "write", "gb": gb, "n": max(1, min(n * bpc, vc * bpc - gb))}

        if conc:
            # sequential fill up to a few clusters before the boundary, then small concurrent writers
            k = 0
            filled = 0
            tight = (i % 2 == 1 and mode != 3) or (mode == 2 and i % 8 in (2, 6))
            exact = mode == 2 and tight
            if tight:
                order = list(range(vc))          # the free guest clusters stay adjacent
            while filled < rbn - 12 and mode != 3 and not tight:
                steps.append({"op": "write", "gb": order[k] * bpc, "n": bpc})
                # allocation is per write: guest clusters need not be adjacent to fill the refblock
                filled += 1
                k += 1
                # (tight: every slice of the refblock stays dirty up to the boundary)
                if k % 32 == 0 and not tight:
                    steps.append({"op": "flush"})
            if tight:
                # directed: everything dirty, stop a little more than one refblock slice before the boundary; then two
                # flushers (flush_meta, and a discard or a second flush_meta) overlap ONE writer whose run of clusters
                # uses up the tail of this slice, the whole next slice and goes on into the refblock that does not exist yet
                spr = 64 if rbn > 64 else 0                       # clusters per 512-byte refblock slice (64-bit refcounts)
                stop = rbn - spr - rng.choice([2, 3, 5])
                if exact:
                    # the refblock in front of the end of the refcount table is used up completely: whoever
                    # allocates next has to enlarge the table
                    # (L2 tables the fill allocates take clusters as well: the scenarios differ in where they stop)
                    stop = rbn - 1 - ((i // 4) % 7)
                while filled < stop:
                    steps.append({"op": "write", "gb": order[k] * bpc, "n": bpc})
                    filled += 1
                    k += 1
                run = sorted(order[k:])
                # a run of adjacent free guest clusters
                best, cur = [], []
                for c in run:
                    cur = cur + [c] if cur and c == cur[-1] + 1 else [c]
                    if len(cur) > len(best):
                        best = list(cur)
                need = rbn - stop + rng.choice([3, 6])
                if exact and len(best) > 80:
                    # two single-cluster writers behind different L2 slices and a flush_meta
                    grp = [{"op": "flush"}, {"op": "write", "gb": best[0] * bpc, "n": bpc}, {"op": "write", "gb": best[75] * bpc, "n": bpc}]
                    rng.shuffle(grp)
                    steps.append({"op": "par", "ops": grp})
                    steps.append({"op": "flush"})
                    k += 80
                    order = [c for c in order if c not in (best[0], best[75])]
                elif len(best) >= need:
                    big = {"op": "write", "gb": best[0] * bpc, "n": need * bpc}
                    used = set(best[:need])
                    order = [c for c in order[:k]] + [c for c in order[k:] if c not in used]
                    grp = [{"op": "flush"}, rng.choice([{"op": "flush"}, {"op": "discard", "gb": order[rng.randrange(k)] * bpc, "n": bpc}]), big]
                    if mode == 2 or rng.random() < 0.3:
                        # a second writer behind another L2 slice that needs new clusters at the same time
                        far = [c for c in order[k:] if c not in used and abs(c - best[0]) > 70]
                        if far:
                            grp.append({"op": "write", "gb": far[-1] * bpc, "n": bpc * rng.choice([1, 2])})
                    rng.shuffle(grp)
                    steps.append({"op": "par", "ops": grp})
                    steps.append({"op": "flush"})
            nw = k + rng.randrange(12, 24)
            while k < nw:
                grp = []
                for t in range(rng.randrange(2, 4)):
                    ops = [{"op": "write", "gb": order[(k + j) % vc] * bpc + rng.randrange(bpc), "n": 1}
                           for j in range(rng.randrange(1, 4))]
                    k += len(ops)
                    if rng.random() < 0.3:
                        ops.append({"op": "flush"})
                    if rng.random() < 0.2:
                        ops.append({"op": "discard", "gb": order[rng.randrange(k)] * bpc, "n": bpc})
                    grp.append(ops)
                for ops in grp:
                    steps.append({"op": "par", "ops": ops})
                steps.append({"op": "flush"})
        else:
            for k in range(nw):
                steps.append(wr(order[k]))
                r = rng.random()
                if r < 0.12:
                    steps.append({"op": "flush"})
                elif r < 0.2:
                    steps.append({"op": "discard", "gb": order[rng.randrange(k + 1)] * bpc, "n": bpc * rng.randrange(1, 3)})
                elif r < 0.24:
                    steps += [{"op": "flush"}, {"op": "reopen"}]
        kw = {}
        if conc:
            kw["sched"] = {"policy": rng.choice(["random", "pct"]), "seed": rng.randrange(1 << 30)}
        if faults:
            # fill up to a few clusters before the boundary, then one run per fault position
            # (every `faults`-th backend request) of the section that crosses it
            pre = []
            if mode != 3:
                for k in range(rbn - 6):
                    pre.append({"op": "write", "gb": order[k] * bpc, "n": bpc})
                    if k % 40 == 39:
                        pre.append({"op": "flush"})
                pre.append({"op": "flush"})
            sect = [{"op": "write", "gb": order[rbn + j] * bpc, "n": bpc * rng.choice([1, 1, 2])} for j in range(10)]
            sect.insert(rng.randrange(3, 10), {"op": "flush"})
            tail = [{"op": "flush"}, {"op": "recover", "retries": 4}, {"op": "sweep"}, {"op": "flush"}, {"op": "reopen"}, {"op": "sweep"}]
            for k in range(0, 48, faults):
                kk = k + rng.randrange(faults)
                out.append(S.mk(f"{tag}-{mode}-{i}-f{kk}", geo, images,
                                pre + [{"op": "fail_next", "nth": kk, "partial": kk % 3 == 2}] + sect + tail, alloc_hint=hint))
            continue
        steps += [{"op": "flush"}, {"op": "sweep"}, {"op": "reopen"}, {"op": "sweep"}, {"op": "check"}]
        out.append(S.mk(f"{tag}-{mode}-{i}", geo, images, steps, alloc_hint=hint, **kw))
    return out


_EXH = {}


def fam_exhaustive(tier, tag, variants=("plain", "backing", "special", "backing_short"), depth=None, sample=None, seed=1):
    """small-scope exhaustive histories (spec/GenOps.tla): every sequence of up
    to DEPTH operations on two guest clusters of a 4-cluster device, on three
    image variants (allocated/unallocated, backing-provided, compressed +
    preallocated zero)"""
    depth = depth or (3 if tier == "quick" else 4)
    if depth not in _EXH:
        _EXH[depth] = Q.tlc_enumerate("GenOps.tla", env={"DEPTH": str(depth)}, timeout=1800)[0]
    hist = _EXH[depth]
    if depth >= 4 and not sample:
        # 41 371 histories of up to four operations: a seeded third of them per image variant
        sample = 14000
    geo = dict(cb=10, ro=4, bsb=9, vclusters=4, params={"l2": [9, 1024], "rb": [9, 1024]})
    imgs = _exh_images()
    rng = random.Random(seed * 1237 + depth)
    out = []
    rd = {"op": "read", "gb": 0, "n": 8}
    for vi, v in enumerate(variants):
        hs = hist
        if sample and len(hs) > sample:
            hs = rng.sample(hs, sample)
        for k, h in enumerate(hs):
            lay = _exh_layout(v)
            rdl = lay["rd"]
            steps = list(lay["pre"]) + [_exh_step(o, lay) for o in h["ops"]]
            steps += rdl + [{"op": "flush"}, {"op": "fsync"}] + rdl + [{"op": "reopen"}] + rdl
            code = "".join(o["op"] + (str(o["g"]) + o["part"][0] if o["op"] in "wd" else "") for o in h["ops"])
            out.append(S.mk(f"{tag}-{v}-{code}", lay["geo"], imgs[v], steps, sample_flag=True))
    return out


_EXHP = {}


def _exh_images():
    D = lambda g, kind, wid: {"g": g, "kind": kind, "wid": wid}
    base = {"cb": 10, "ro": 4, "vclusters": 4, "shuffle": 0, "holes": 0}
    return {
        "plain": [{"kind": "build", "desc": dict(base, clusters=[D(0, "data", 1), D(2, "data", 1)])}],
        "backing": [{"kind": "build", "desc": dict(base, clusters=[D(1, "zero", 1)])},
                    {"kind": "build", "desc": dict(base, clusters=[D(0, "data", 2), D(1, "data", 2), D(2, "data", 2), D(3, "data", 2)])}],
        "special": [{"kind": "build", "desc": dict(base, clusters=[D(0, "comp", 1), D(1, "zero_prealloc", 1), D(2, "data", 1)])}],
        # a backing image that ends inside guest cluster 1 (after its first block): data above it comes from nowhere
        "backing_short": [{"kind": "build", "desc": dict(base, clusters=[D(3, "data", 1)])},
                          {"kind": "build", "desc": dict(base, vclusters=2, size_minus_sectors=1, clusters=[D(0, "data", 2), D(1, "data", 2)])}],
        "pressure": [{"kind": "build", "desc": {"cb": 10, "ro": 6, "vclusters": 200, "shuffle": 0, "holes": 0,
                                                "clusters": [D(g, "data", 1) for g in range(200) if g not in (64, 70, 71, 130, 195, 196) and g % 7 != 5]}}],
        # two preallocated zero clusters side by side (one multi-cluster write reuses both)
        "prealloc2": [{"kind": "build", "desc": dict(base, clusters=[D(0, "zero_prealloc", 1), D(1, "zero_prealloc", 1), D(3, "data", 1)])}],
    }


_TINY = dict(geo=dict(cb=10, ro=4, bsb=9, vclusters=4, params={"l2": [9, 1024], "rb": [9, 1024]}), g={0: 0, 1: 1}, both=0,
             rd=[{"op": "read", "gb": 0, "n": 8}], pre=[])
# cache pressure: 2-slice caches, the two operated clusters behind different L2 slices (64 entries each), "both" across a slice
# boundary, the host file spread over three refblock slices (64-bit refcounts: 64 per slice); every history first touches two
# further L2 slices, so that the slices the operations use are evicted and reloaded along the way
_PRESS = dict(geo=dict(cb=10, ro=6, bsb=9, vclusters=200, params={"l2": [9, 1024], "rb": [9, 1024]}), g={0: 3, 1: 70}, both=63,
              rd=[{"op": "read", "gb": c * 2, "n": 2} for c in (3, 63, 64, 70)] + [{"op": "read", "gb": 130 * 2, "n": 2}],
              pre=[{"op": "read", "gb": 130 * 2, "n": 1}, {"op": "write", "gb": 195 * 2, "n": 1}])


def _exh_layout(variant):
    return _PRESS if variant == "pressure" else _TINY


def _exh_step(o, lay=None):
    lay = lay or _TINY
    g, part = o["g"], o["part"]
    if o["op"] in ("w", "d"):
        c = lay["g"][g] * 2
        gb, n = {"full": (c, 2), "head": (c, 1), "tail": (c + 1, 1), "both": (lay["both"] * 2, 4)}[part]
        return {"op": "write" if o["op"] == "w" else "discard", "gb": gb, "n": n}
    return {"op": {"f": "flush", "s": "fsync", "k": "shrink", "r": "reopen", "c": "check"}[o["op"]]}


def _exh_code(ops):
    return "".join(o["op"] + (str(o["g"]) + o["part"][0] if o["op"] in "wd" else "") for o in ops)


def fam_exhaustive_par(tier, tag, variants=("plain", "backing", "special", "backing_short"), parn=None, seeds=(1, 2), sweep=0, sample=None, seed=1,
                       probe=False):
    """concurrent small scope (spec/GenOps.tla, EmitPar): every multiset of two
    (thorough: also three) overlapping operations on two guest clusters, after
    every single-operation prefix, on three image variants, under several
    schedule seeds"""
    out = []
    geo = dict(cb=10, ro=4, bsb=9, vclusters=4, params={"l2": [9, 1024], "rb": [9, 1024]})
    imgs = _exh_images()
    rd = {"op": "read", "gb": 0, "n": 8}
    rng = random.Random(seed * 7 + 5)
    for pn in [2, 3] if parn is None else [parn]:
        if pn not in _EXHP:
            _EXHP[pn] = Q.tlc_enumerate("GenOps.tla", cfg="GenOpsPar.cfg", env={"DEPTH": "0", "PARN": str(pn)}, workers=1, timeout=1800)[0]
        hs = _EXHP[pn]
        if sample and len(hs) > sample:
            hs = rng.sample(hs, sample)
        elif pn == 3 and parn is None:
            # all pairs, a seeded sample of the 9 790 triples
            hs = rng.sample(hs, 500 if tier == "quick" else 3000)
        for v in variants:
            for h in hs:
                lay = _exh_layout(v)
                rdl = lay["rd"]
                steps = list(lay["pre"]) + [_exh_step(o, lay) for o in h["pre"]] + [{"op": "par", "ops": [_exh_step(o, lay) for o in h["par"]]}]
                if probe and v != "pressure":
                    # harness-side oracle for schedule sweeps: flag clear => a reopened device reads the same
                    steps.append({"op": "probe"})
                steps += rdl + [{"op": "flush"}, {"op": "fsync"}] + rdl + [{"op": "reopen"}] + rdl
                for sd in seeds:
                    out.append(S.mk(f"{tag}-{v}-{_exh_code(h['pre'])}_{_exh_code(h['par'])}-s{sd}", lay["geo"], imgs[v], steps, sample_flag=True,
                                    sched={"policy": "random" if sd % 2 else "pct", "seed": sd * 7919 + seed}, sched_sweep=sweep))
    return out


def fam_exhaustive_faults(tier, tag, seed=1):
    """small-scope exhaustive faults: every history of at most two operations
    (spec/GenOps.tla) followed by flush_meta, on three image variants, with a
    fault at each backend request index of that section; then recovery"""
    if 2 not in _EXH:
        _EXH[2] = Q.tlc_enumerate("GenOps.tla", env={"DEPTH": "2"}, timeout=600)[0]
    geo = dict(cb=10, ro=4, bsb=9, vclusters=4, params={"l2": [9, 1024], "rb": [9, 1024]})
    imgs = _exh_images()
    rd = {"op": "read", "gb": 0, "n": 8}
    rng = random.Random(seed * 11 + 3)
    out = []
    hs = [h for h in _EXH[2] if not any(o["op"] == "r" for o in h["ops"])]
    nf = 18 if tier == "quick" else 30
    for v in ("plain", "backing", "special", "prealloc2"):
        for h in hs:
            ops = [_exh_step(o) for o in h["ops"]] + [{"op": "flush"}]
            # after recovery the faulted operations are issued once more (a caller that retries)
            again = [_exh_step(o) for o in h["ops"] if o["op"] in "wd"]
            tail = [{"op": "recover", "retries": 4}, rd] + again + [rd, {"op": "shrink"}, rd, {"op": "flush"}, {"op": "reopen"}, rd]
            ks = range(nf) if tier != "quick" else sorted(rng.sample(range(nf), 6))
            for k in ks:
                out.append(S.mk(f"{tag}-{v}-{_exh_code(h['ops'])}-f{k}", geo, imgs[v],
                                [{"op": "fail_next", "nth": k, "partial": k % 3 == 2}] + ops + tail,
                                punch_unsupported=(k % 4 == 3)))
    return out


def fam_outage(tier, seed, tag, nruns):
    """backend outage during flush_meta: several slices (of several tables) are
    dirty, every request fails from the n-th request of the flush until it has
    returned; then the backend works again, flush_meta is repeated, reopen"""
    rng = random.Random(seed * 4241 + zlib.crc32(tag.encode()) % 1000)
    out = []
    gl = [dict(cb=9, ro=4, bsb=9, vclusters=300, params={"l2": [9, 2048], "rb": [9, 1024]}),
          dict(cb=10, ro=4, bsb=9, vclusters=400, params={"l2": [9, 2048], "rb": [9, 1024]}),
          dict(cb=10, ro=6, bsb=9, vclusters=300, params={"l2": [9, 2048], "rb": [9, 2048]})]
    for i in range(nruns):
        geo = gl[i % len(gl)]
        bpc = 1 << (geo["cb"] - geo["bsb"])
        vc = geo["vclusters"]
        images = [S.image_shaped(rng, geo, 1, frac=rng.choice([0.0, 0.1]), kinds=("data", "zero"))]
        # writes through 3-4 different L2 slices (64 entries each)
        cs = sorted(rng.sample(range(0, vc, 64), min(4, vc // 64)))
        pre = [{"op": "write", "gb": (c + rng.randrange(60)) * bpc + rng.randrange(bpc), "n": rng.choice([1, bpc, bpc + 1])} for c in cs]
        touched = [st["gb"] for st in pre]
        rd = [{"op": "read", "gb": gb - gb % bpc, "n": 2 * bpc} for gb in touched]
        for k in range(0, 14, 1 if tier != "quick" else 3):
            kk = k + (rng.randrange(3) if tier == "quick" else 0)
            steps = pre + [{"op": "fail_from", "nth": kk}, {"op": "flush"}, {"op": "recover", "retries": 4}] + rd + \
                    [{"op": "flush"}, {"op": "reopen"}] + rd
            out.append(S.mk(f"{tag}-{i}-o{kk}", geo, images, steps))
    return out


def fam_park(tier, tag, variants=("plain", "backing", "special"), nths=None, seed=1, probe=False, light=False):
    """park schedules for the pairs of spec/GenOps.tla: the first call of the pair
    runs alone until n of its backend requests have completed and it waits for the
    next one, the second call then runs as far as it gets, then both finish - for
    every n, both orders.  (The schedules that random choice practically never
    produces: one call entirely inside one await of the other.)"""
    if 2 not in _EXHP:
        _EXHP[2] = Q.tlc_enumerate("GenOps.tla", cfg="GenOpsPar.cfg", env={"DEPTH": "0", "PARN": "2"}, workers=1, timeout=1800)[0]
    geo = dict(cb=10, ro=4, bsb=9, vclusters=4, params={"l2": [9, 1024], "rb": [9, 1024]})
    imgs = _exh_images()
    rd = {"op": "read", "gb": 0, "n": 8}
    nths = nths or (range(0, 12) if tier != "quick" else range(0, 12))
    keep_pre = {"", "w0f", "w1ff", "w0bk", "w1hk"}
    out = []
    for v in variants:
        for h in _EXHP[2]:
            if _exh_code(h["pre"]) not in keep_pre:
                continue
            if light and (_exh_code(h["pre"]) not in ("", "w0f") or any(o["op"] == "c" for o in h["par"])):
                continue
            if all(o["op"] in "fskc" for o in h["par"]) or any(o["op"] == "s" for o in h["par"]):
                continue
            orders = [h["par"], list(reversed(h["par"]))] if h["par"][0] != h["par"][1] else [h["par"]]
            for oi, par in enumerate(orders):
                for n in nths:
                    lay = _exh_layout(v)
                    rdl = lay["rd"]
                    steps = list(lay["pre"]) + [_exh_step(o, lay) for o in h["pre"]] + [{"op": "par", "ops": [_exh_step(o, lay) for o in par]}]
                    if probe and v != "pressure":
                        steps.append({"op": "probe"})
                    steps += rdl + [{"op": "flush"}, {"op": "fsync"}] + rdl + [{"op": "reopen"}] + rdl
                    out.append(S.mk(f"{tag}-{v}-{_exh_code(h['pre'])}_{_exh_code(par)}-n{n}", lay["geo"], imgs[v], steps, sample_flag=True,
                                    sched={"policy": "park", "seed": n}))
    return out


def fam_wide_faults(tier, seed, tag, nh=None):
    """L1 tables of several blocks: a fault at each request while a later L1 block and the slices below it are flushed"""
    rng = random.Random(seed * 613 + zlib.crc32(tag.encode()) % 1000)
    scens = []
    for h in range(nh or (2 if tier == "quick" else 12)):
        geo = dict(cb=9, ro=4, bsb=9, vclusters=64 * rng.choice([66, 70, 130]), params={"l2": [9, 1024], "rb": [9, 1024]})
        nl1 = geo["vclusters"] // 64
        images = [S.image_plain(geo, "build")]
        if h % 2 == 1:
            # the header lists the first 64 L1 entries only: the writes behind them make it grow
            images[0]["desc"]["l1_entries"] = 64
        idx = [rng.choice([0, 1, 63]), rng.choice([64, 65, nl1 - 1]), rng.choice([64, 65, nl1 - 1, 127 % nl1])]
        touched = [i1 * 64 + rng.randrange(64) for i1 in idx]
        pre = [{"op": "write", "gb": touched[0], "n": 1}, {"op": "flush"}]
        ops = [{"op": "write", "gb": c, "n": 1} for c in touched[1:]] + [{"op": "flush"}]
        rd = [{"op": "read", "gb": c, "n": 1} for c in touched]
        tail = [{"op": "recover", "retries": 4}] + rd + [{"op": "flush"}, {"op": "reopen"}] + rd
        for k in range(16 if tier == "quick" else 30):
            scens.append(S.mk(f"{tag}-l1{h}-f{k}", geo, images, pre + [{"op": "fail_next", "nth": k, "partial": k % 3 == 2}] + ops + tail))
    return scens


def fam_park3(tier, tag, seed=1, variants=("plain", "backing", "special", "pressure")):
    """three parties, deterministic: the first call (a read, or a write in place) is parked after n of its
    requests; a discard of its cluster runs to completion; then a write to another cluster (which may be handed
    the released cluster); then the parked call finishes.  On the tiny device and - with the caches emptied first,
    so that the parked call waits in a metadata load - on the pressure layout (two readers of other slices as the
    second and third party: the slice the parked writer holds becomes the eviction victim)."""
    out = []
    imgs = _exh_images()
    for v in variants:
        lay = _exh_layout(v)
        c0, c1 = lay["g"][0] * 2, lay["g"][1] * 2
        rdl = lay["rd"]
        victims = [{"op": "read", "gb": c0, "n": 2}, {"op": "write", "gb": c0, "n": 1}, {"op": "write", "gb": c1, "n": 2}]
        seconds = [{"op": "discard", "gb": c0, "n": 2}, {"op": "discard", "gb": lay["both"] * 2, "n": 4}]
        thirds = [{"op": "write", "gb": c1, "n": 2}, {"op": "write", "gb": c1 + 1, "n": 1}]
        if v == "pressure":
            seconds.append({"op": "read", "gb": 130 * 2, "n": 2})
            thirds.append({"op": "read", "gb": 195 * 2, "n": 2})
        pres = [[], [{"op": "shrink"}]] if v == "pressure" else [[]]
        k = 0
        for pre in pres:
            for a in victims:
                for b in seconds:
                    for c in thirds:
                        if a == c:
                            continue
                        for n in range(0, 8 if tier == "quick" else 12):
                            k += 1
                            steps = list(lay["pre"]) + pre + [{"op": "par", "ops": [a, b, c]}]
                            steps += rdl + [{"op": "flush"}, {"op": "fsync"}] + rdl + [{"op": "reopen"}] + rdl
                            out.append(S.mk(f"{tag}-{v}-{k}-n{n}", lay["geo"], imgs[v], steps, sample_flag=True,
                                            sched={"policy": "park", "seed": n}))
    return out


def fam_cowread(tier, seed, tag, nruns):
    """reads overlapping copy-on-write in time: partial writes over backing /
    compressed clusters with concurrent reads of the same and neighbouring clusters"""
    rng = random.Random(seed * 6151 + zlib.crc32(tag.encode()) % 1000)
    G = S.geoms(tier)
    names = ["G1", "G2", "G2k", "G3a", "G6"]
    out = []
    for i in range(nruns):
        geo = dict(G[names[i % len(names)]])
        geo["vclusters"] = min(geo["vclusters"], 32)
        vc = geo["vclusters"]
        bpc = 1 << (geo["cb"] - geo["bsb"])
        images = [S.image_shaped(rng, geo, 1, frac=0.4, kinds=("comp", "comp", "data", "zero")),
                  S.image_shaped(rng, geo, 2, frac=0.8, kinds=("data",), vclusters=vc + rng.choice([0, -6, 4]))]
        steps = []
        for g_ in range(rng.randrange(2, 5)):
            c = rng.randrange(vc)
            off = rng.randrange(bpc)
            ops = [{"op": "write", "gb": c * bpc + off, "n": max(1, min(rng.choice([1, bpc - off, bpc]), vc * bpc - (c * bpc + off)))}]
            for k in range(rng.randrange(1, 4)):
                c2 = max(0, min(vc - 1, c + rng.choice([0, 0, 0, 1, -1])))
                ops.append({"op": "read", "gb": c2 * bpc, "n": min(bpc * rng.choice([1, 2]), vc * bpc - c2 * bpc)})
            if rng.random() < 0.3:
                c3 = max(0, min(vc - 1, c + rng.choice([0, 1])))
                ops.append({"op": "write", "gb": c3 * bpc + rng.randrange(bpc), "n": 1})
            rng.shuffle(ops)
            steps.append({"op": "par", "ops": ops})
            steps.append({"op": "sweep"})
        steps += [{"op": "flush"}, {"op": "sweep"}, {"op": "reopen"}, {"op": "sweep"}]
        out.append(S.mk(f"{tag}-{i}", geo, images, steps, sched={"policy": ["random", "pct"][i % 2], "seed": rng.randrange(1 << 30)}))
    return out


def fam_allocstress(tier, seed, tag, nruns):
    """multi-cluster writes and fragmenting discards on geometries with small
    refblock slices (allocation across slice boundaries, fragment retry)"""
    rng = random.Random(seed * 7727 + zlib.crc32(tag.encode()) % 1000)
    out = []
    gl = [dict(cb=12, ro=6, bsb=9, vclusters=160, params={"l2": [9, 1024], "rb": [9, 1024]}),
          dict(cb=9, ro=6, bsb=9, vclusters=200, params={"l2": [9, 1024], "rb": [9, 1024]}),
          dict(cb=10, ro=5, bsb=9, vclusters=160, params={"l2": [9, 1024], "rb": [9, 1024]})]
    for i in range(nruns):
        geo = gl[i % len(gl)]
        bpc = 1 << (geo["cb"] - geo["bsb"])
        vc = geo["vclusters"]
        steps = []
        nxt = 0
        if i % 2 == 1:
            # directed: fill past a refblock-slice boundary, punch an isolated hole before the
            # boundary, free the tail of that slice and a run behind the head of the next one,
            # then allocate a run longer than the tail
            ro = geo["ro"]
            ent = (512 * 8) >> ro                    # refcounts per 512-byte slice
            fill = min(vc - 1, ent + 30)
            steps += [{"op": "write", "gb": c * bpc, "n": bpc} for c in range(fill)]
            steps.append({"op": "flush"})
            # host cluster index ~ guest index + metadata clusters already allocated
            for shift in (rng.randrange(3, 12),):
                b = ent - shift                       # guest cluster whose host cluster is near the slice end
                hole = max(0, b - rng.randrange(8, 20))
                steps.append({"op": "discard", "gb": hole * bpc, "n": bpc})
                t = rng.randrange(1, 4)
                steps.append({"op": "discard", "gb": max(0, b - t) * bpc, "n": t * bpc})
                j = rng.randrange(1, 3)
                steps.append({"op": "discard", "gb": (b + j) * bpc, "n": rng.randrange(6, 10) * bpc})
            steps.append({"op": "flush"})
            c0 = min(vc - 9, fill + 2)
            steps.append({"op": "write", "gb": c0 * bpc, "n": rng.choice([6, 8]) * bpc})
            steps += [{"op": "flush"}, {"op": "sweep"}]
        for k in range(rng.randrange(30, 60)):
            r = rng.random()
            if r < 0.55:
                ncl = rng.choice([1, 1, 2, 3, 5, 8, 12])
                c = nxt if rng.random() < 0.7 else rng.randrange(vc)
                ncl = max(1, min(ncl, vc - c))
                steps.append({"op": "write", "gb": c * bpc, "n": ncl * bpc})
                nxt = (c + ncl) % vc
            elif r < 0.85:
                c = rng.randrange(vc)
                ncl = max(1, min(rng.choice([1, 1, 2, 3, 8]), vc - c))
                steps.append({"op": "discard", "gb": c * bpc, "n": ncl * bpc})
            elif r < 0.95:
                steps.append({"op": "flush"})
            else:
                steps += [{"op": "flush"}, {"op": "reopen"}]
        steps += [{"op": "sweep"}, {"op": "flush"}, {"op": "sweep"}, {"op": "reopen"}, {"op": "sweep"}]
        out.append(S.mk(f"{tag}-{i}", geo, [S.image_plain(geo, "build", shuffle=rng.randrange(1 << 20), holes=rng.choice([0, 2]))], steps))
    return out


def fam_conc_disjoint(tier, seed, tag, nruns):
    """concurrent calls on DISJOINT guest ranges (so the flat model is the same
    for every linearization: crash / sync predicates are not speculative),
    overlapped with flush_meta and fsync"""
    rng = random.Random(seed * 9973 + zlib.crc32(tag.encode()) % 1000)
    G = S.geoms(tier)
    names = ["G1", "G2", "G2k", "G4"]
    out = []
    for i in range(nruns):
        geo = G[names[i % len(names)]]
        bpc = 1 << (geo["cb"] - geo["bsb"])
        vc = geo["vclusters"]
        images = [S.image_shaped(rng, geo, 1, frac=rng.choice([0.0, 0.2]), kinds=("data", "zero"))]
        steps = []
        used = set()

        def fresh_cluster():
            for _ in range(50):
                c = rng.randrange(vc)
                if c not in used:
                    used.add(c)
                    return c
            return rng.randrange(vc)

        for _ in range(rng.randrange(1, 4)):
            c = fresh_cluster()
            steps.append({"op": "write", "gb": c * bpc + rng.randrange(bpc), "n": 1})
        steps += [{"op": "flush"}, {"op": "fsync"}]
        for g_ in range(rng.randrange(2, 4)):
            ops = []
            for k in range(rng.randrange(2, 4)):
                c = fresh_cluster()
                if rng.random() < 0.8:
                    ops.append({"op": "write", "gb": c * bpc + rng.randrange(bpc), "n": rng.choice([1, bpc])})
                else:
                    ops.append({"op": "discard", "gb": c * bpc, "n": bpc})
            ops.insert(rng.randrange(len(ops) + 1), {"op": "flush"})
            if rng.random() < 0.4:
                ops.append({"op": "flush"})
            steps.append({"op": "par", "ops": ops})
            steps += [{"op": "flush"}, {"op": "fsync"}]
            if rng.random() < 0.5:
                # same cluster, different blocks: two sub-cluster writers
                c = fresh_cluster()
                if bpc > 1:
                    steps.append({"op": "par", "ops": [{"op": "write", "gb": c * bpc, "n": 1}, {"op": "write", "gb": c * bpc + 1, "n": 1}]})
                    steps += [{"op": "flush"}, {"op": "fsync"}]
        steps += [{"op": "sweep"}]
        out.append(S.mk(f"{tag}-{i}", geo, images, steps, sched={"policy": ["random", "pct"][i % 2], "seed": rng.randrange(1 << 30)}))
    return out


def fam_same_target(tier, seed, tag, nruns):
    """several calls aimed at the SAME cluster while its L2 slice is cold
    (after shrink_caches / reopen): discard x discard, discard x write,
    write x write, with another writer allocating in between"""
    rng = random.Random(seed * 4447 + zlib.crc32(tag.encode()) % 1000)
    G = S.geoms(tier)
    names = ["G1", "G2", "G2k", "G4", "G6"]
    out = []
    for i in range(nruns):
        geo = G[names[i % len(names)]]
        bpc = 1 << (geo["cb"] - geo["bsb"])
        vc = geo["vclusters"]
        cs = [rng.randrange(vc) for _ in range(3)]
        steps = [{"op": "write", "gb": c * bpc, "n": bpc} for c in cs]
        steps += [{"op": "flush"}, rng.choice([{"op": "shrink"}, {"op": "reopen"}])]
        for g_ in range(rng.randrange(1, 4)):
            c = rng.choice(cs)
            kind = rng.choice(["dd", "dd", "dw", "ww", "ddw"])
            other = rng.randrange(vc)
            ops = {"dd": [{"op": "discard", "gb": c * bpc, "n": bpc}, {"op": "discard", "gb": c * bpc, "n": bpc}],
                   "dw": [{"op": "discard", "gb": c * bpc, "n": bpc}, {"op": "write", "gb": c * bpc + rng.randrange(bpc), "n": 1}],
                   "ww": [{"op": "write", "gb": c * bpc, "n": 1}, {"op": "write", "gb": c * bpc + bpc - 1, "n": 1}],
                   "ddw": [{"op": "discard", "gb": c * bpc, "n": bpc}, {"op": "discard", "gb": max(0, c - 1) * bpc, "n": 2 * bpc},
                           {"op": "write", "gb": c * bpc, "n": bpc}]}[kind]
            ops.append({"op": "write", "gb": other * bpc, "n": bpc})
            if rng.random() < 0.4:
                ops.append({"op": "write", "gb": rng.randrange(vc) * bpc, "n": bpc})
            rng.shuffle(ops)
            steps.append({"op": "par", "ops": ops})
            steps += [{"op": "sweep"}, {"op": "flush"}]
            if rng.random() < 0.6:
                steps.append({"op": "shrink"})
        steps += [{"op": "sweep"}, {"op": "flush"}, {"op": "reopen"}, {"op": "sweep"}]
        out.append(S.mk(f"{tag}-{i}", geo, [S.image_plain(geo, "build", shuffle=rng.randrange(1 << 20))], steps,
                        sched={"policy": ["random", "pct"][i % 2], "seed": rng.randrange(1 << 30)}))
    return out


def fam_regress():
    """the failing histories of every finding fixed so far (regress/*.json):
    a fixed entry suppresses nothing, so these are re-checked on every run"""
    import glob
    out = []
    for f in sorted(glob.glob(os.path.join(Q.VERIF, "regress", "*.json"))):
        sc = json.load(open(f))["scenario"]
        sc = dict(sc, name="regress-" + os.path.basename(f)[:-5])
        out.append(sc)
    return out


# --------------------------------------------------------------------------
# verdicts

def classify_unaccepted(res):
    """why was a run not accepted: returns (property, description)"""
    ev = res.get("stuck_event")
    if ev is None:
        return ("TOOL", "no REACHED record")
    if ev["e"] == "Ret":
        par = any(st.get("op") == "par" for st in res["scenario"]["steps"])
        return ("C06" if par else "C01", f"no admissible value explains Ret id={ev['id']} toks={ev.get('toks')}")
    return ("TOOL", f"trace stops being explainable at event {ev['e']}")


def sig_of(prop, res, v):
    """signature of a violation for the known-findings file"""
    d = v["detail"]
    if v["prop"] == "C04" and isinstance(d, list) and d and d[0] == "under":
        # classify who references each under-counted cluster in the crash image
        cls = set()
        for c, stored, refs in d[1]:
            for tag, idx, flat, imgk in refs:
                if tag == 5 and flat == "dd" and imgk in ("d", "zp"):
                    cls.add("discarded")          # L2 still maps a discarded cluster
                elif tag == 5 and flat in ("d", "x") and imgk == "zp":
                    cls.add("prealloc-replaced")  # old zero-prealloc entry still on disk
                else:
                    cls.add(f"other:{tag}:{flat}:{imgk}")
        return "under:" + ",".join(sorted(cls))
    if v["prop"] == "C04" and isinstance(d, list) and d and d[0] == "tables":
        return "tables"
    if prop in ("C07",) and isinstance(d, list) and d and d[0] == "Panic":
        return f"panic:{d[1]}"
    return json.dumps(d, sort_keys=True)[:200]


class Check:
    def __init__(self, prop, tier, seed):
        self.prop, self.tier, self.seed = prop, tier, seed
        self.t0 = time.time()
        self.viol_lines = []
        self.known_lines = []
        self.samples = []
        self.stats = dict(states=0, distinct=0, crash_images=0, synced_crash_images=0)
        self.nruns = 0
        self.accepted = 0
        self.nontrivial = set()
        self.events = 0
        self.known = [k for k in Q.load_known() if k["property"] == prop and k.get("status") == "known"]
        self.extra = {}
        self.other = []

    def known_tags(self):
        return ",".join(sorted({k["tag"] for k in Q.load_known() if k.get("status") == "known" and k.get("tag")}))

    def match_known(self, sig):
        for k in self.known:
            if k["signature"] in sig:
                return k
        return None

    def report(self, res, prop, why, sig):
        k = self.match_known(sig)
        if k is not None:
            line = f"KNOWN-FINDING: property={prop} {k['description']}"
            if line not in self.known_lines:
                self.known_lines.append(line)
            return
        path = Q.save_replay(prop, res["scenario"], why)
        self.viol_lines.append(f"VIOLATION property={prop} replay={path}")
        Q.log(f"  violation: {why}")

    def consume(self, results, stats, props, unaccepted_props=("C01", "C06")):
        """fold a batch's results; `props` = VIOL tags that belong to this check"""
        for k in self.stats:
            self.stats[k] += stats.get(k, 0)
        for name, res in sorted(results.items()):
            self.nruns += 1
            fam = self.extra.setdefault("runs_by_family", {})
            fam[name.split("-")[0]] = fam.get(name.split("-")[0], 0) + 1
            self.events += res["summary"].get("events", 0)
            sc = res["scenario"]
            if res["accepted"]:
                self.accepted += 1
            else:
                p, why = classify_unaccepted(res)
                if p == "TOOL":
                    raise Q.ToolError(f"{name}: {why} (line {res.get('reached')})")
                if (p in unaccepted_props and p == self.prop) or (self.prop not in ("C14", "C20") and p in ("C01", "C06")):
                    # a return value that no admissible history explains is a defect whichever property's
                    # check the run belongs to
                    self.report(res, self.prop, f"{name}: {why}", "unexplained-read")
                else:
                    Q.log(f"  note: run {name} not accepted ({p}: {why[:160]}) - belongs to the {p} check")
                    self.other.append((p, name))
            # clusters taken through the allocator hook belong to nobody: exact refcounts (C03) cannot hold
            hooked = any(st.get("op") in ("alloc", "free_alloc") or
                         (st.get("op") == "par" and any(o.get("op") in ("alloc", "free_alloc") for o in st["ops"]))
                         for st in sc["steps"])
            for v in Q.dedup_viols(res["viols"]):
                if hooked and v["prop"] == "C03" and self.prop != "C03":
                    continue
                if v["prop"] == "C07" and isinstance(v["detail"], list) and v["detail"] and v["detail"][0] == "Panic" \
                        and "PANIC" in props:
                    v = dict(v, prop=self.prop)
                if v["prop"] == "CRASH" and "CRASH" in props:
                    v = dict(v, prop=self.prop)
                # every invariant of the envelope is evaluated on every run: a violation of another
                # property's invariant found here is reported by this check as well (with its own tag in
                # the text) - the defect is real whichever check met it first
                if v["prop"] in props or v["prop"] == self.prop or (self.prop not in ("C14", "C20") and v["prop"] not in ("OPEN",)):
                    self.report(res, self.prop, f"{name} line {v['line']}: {v['prop']} {json.dumps(v['detail'])[:300]}",
                                sig_of(self.prop, res, v))
            if len(self.samples) < 3:
                self.samples.append(dict(name=name, steps=sc["steps"][:12], images=[i.get("kind") for i in sc["images"]],
                                         accepted=res["accepted"], events=res["summary"].get("events")))

    def finish(self, level, rule, assumptions, extra=None):
        for l in self.known_lines:
            print(l)
        for l in sorted(set(self.viol_lines)):
            print(l)
        cov = dict(states=max(1, self.stats["states"]), transitions=max(1, self.stats["states"]),
                   distinct_states=self.stats["distinct"],
                   traces_validated_against_impl=self.nruns, traces_accepted=self.accepted,
                   samples=self.samples or [{}], evaluations=self.nruns,
                   distinct_nontrivial=len(self.nontrivial), rule=rule,
                   trace_events=self.events, crash_images=self.stats["crash_images"],
                   synced_crash_images=self.stats["synced_crash_images"],
                   known_findings=len(self.known_lines))
        cov.update(self.extra)
        if extra:
            cov.update(extra)
        Q.write_evidence(self.prop, self.tier, self.seed, level, cov, assumptions,
                         time.time() - self.t0, len(set(self.viol_lines)))
        return 1 if self.viol_lines else 0


BASE_ASSUME = [
    "the bytes->abstract-block projection (harness/src/decode.rs) is trusted",
    "SimFile implements spec HostFile semantics (bytes captured at issue, effect at completion, short reads at EOF)",
    "single-threaded executor: tasks interleave only at awaits",
]


def nontrivial_seq(chk, results):
    """a sequential run is non-trivial if it was accepted through at least
    one write, one read that returned non-zero data and one flush"""
    for name, res in results.items():
        st = res["scenario"]["steps"]
        ops = {s["op"] for s in st}
        if {"write", "flush"} <= ops and res["summary"].get("reqs", 0) > 10:
            chk.nontrivial.add(json.dumps(st, sort_keys=True))


def check_C01(chk):
    n = 48 if chk.tier == "quick" else 600
    scens = fam_seq(chk.tier, chk.seed, "c01", n, 24 if chk.tier == "quick" else 40)
    scens += fam_backing(chk.tier, chk.seed, "c01b", n // 2, 16)
    scens += fam_wide(chk.tier, chk.seed, "c01w", 8 if chk.tier == "quick" else 80)
    scens += fam_growth(chk.tier, chk.seed, "c01g", 4 if chk.tier == "quick" else 40)
    scens += fam_allocstress(chk.tier, chk.seed, "c01a", 6 if chk.tier == "quick" else 60)
    scens += fam_exhaustive(chk.tier, "c01e", seed=chk.seed)
    scens += fam_exhaustive_par(chk.tier, "c01p", seed=chk.seed, seeds=(1, 2))
    scens += fam_park(chk.tier, "c01k", variants=("plain", "backing"), seed=chk.seed)
    scens += fam_regress()
    res, st = Q.run_batch(scens, chk.wd, known=chk.known_tags(), par=12)
    chk.consume(res, st, props=("C01",))
    nontrivial_seq(chk, res)
    return chk.finish("model_checking",
                      "seeded sequential histories x geometries G1-G6 x image shapes (plain/format/zero/prealloc/compressed/backing chains); "
                      "non-trivial = distinct history containing a write and a flush with >10 backend requests, accepted by TLC against FlatDisk",
                      BASE_ASSUME)


def check_C02(chk):
    n = 48 if chk.tier == "quick" else 600
    w = dict(write=40, read=10, discard=10, flush=14, shrink=8, reopen=10)
    scens = fam_seq(chk.tier, chk.seed, "c02", n, 28 if chk.tier == "quick" else 50, weights=w, sweep_every=0)
    scens += fam_backing(chk.tier, chk.seed, "c02b", n // 2, 18)
    scens += fam_wide(chk.tier, chk.seed, "c02w", 8 if chk.tier == "quick" else 80)
    scens += fam_exhaustive(chk.tier, "c02e", seed=chk.seed)
    scens += fam_exhaustive_par(chk.tier, "c02p", seed=chk.seed, seeds=(1, 2), probe=True, sweep=4 if chk.tier == "quick" else 20)
    scens += fam_outage(chk.tier, chk.seed, "c02o", 6 if chk.tier == "quick" else 40)
    scens += fam_park(chk.tier, "c02k", variants=("plain", "special"), seed=chk.seed)
    scens += fam_wide_faults(chk.tier, chk.seed, "c02")
    scens += fam_exhaustive(chk.tier, "c02x", variants=("pressure",), depth=3, sample=300 if chk.tier == "quick" else 1818, seed=chk.seed)
    scens += fam_regress()
    res, st = Q.run_batch(scens, chk.wd, known=chk.known_tags(), par=12)
    chk.consume(res, st, props=("C02",))
    nontrivial_seq(chk, res)
    return chk.finish("model_checking",
                      "histories with flush_meta/shrink/reopen (same and different slice+cache parameters); Inv_C02 evaluated by the "
                      "spec's own reader on the abstract file after every successful flush_meta, reopen sweeps must match it",
                      BASE_ASSUME)


def check_C03(chk):
    n = 48 if chk.tier == "quick" else 600
    scens = fam_seq(chk.tier, chk.seed, "c03", n, 28 if chk.tier == "quick" else 50, sweep_every=0,
                    weights=dict(write=45, discard=18, flush=12, shrink=5, reopen=5, read=5))
    scens += fam_backing(chk.tier, chk.seed, "c03b", n // 2, 18)
    scens += fam_allocstress(chk.tier, chk.seed, "c03a", 9 if chk.tier == "quick" else 90)
    scens += fam_wide(chk.tier, chk.seed, "c03w", 4 if chk.tier == "quick" else 40)
    scens += fam_exhaustive(chk.tier, "c03e", seed=chk.seed)
    scens += fam_exhaustive_par(chk.tier, "c03p", seed=chk.seed, seeds=(1, 2))
    scens += fam_growth(chk.tier, chk.seed, "c03g", 8 if chk.tier == "quick" else 48)
    scens += fam_park(chk.tier, "c03k", variants=("plain", "special"), seed=chk.seed)
    scens += fam_wide_faults(chk.tier, chk.seed, "c03")
    scens += fam_regress()
    res, st = Q.run_batch(scens, chk.wd, known=chk.known_tags(), par=12)
    chk.consume(res, st, props=("C03",))
    nontrivial_seq(chk, res)
    alloc_design(chk)
    return chk.finish("model_checking",
                      "Inv_C03 (WellFormed and Exact from spec/Qcow2Format.tla) evaluated after every successful flush_meta of seeded histories "
                      "over all refcount widths incl. sub-byte, several slice sizes, built and library-formatted images; design model spec/Alloc.tla: the real allocator's "
                      "outcome on each TLC-enumerated state judged against the allocator's contract (spec/AllocCheck.tla)",
                      BASE_ASSUME)


def check_C16(chk):
    n = 36 if chk.tier == "quick" else 300
    scens = fam_seq(chk.tier, chk.seed, "c16", n, 20, sweep_every=5)
    scens += fam_backing(chk.tier, chk.seed, "c16b", n // 2, 16)
    scens += fam_growth(chk.tier, chk.seed, "c16g", 4 if chk.tier == "quick" else 24)
    # headers that list more L1 entries than the virtual size needs, and not a whole number of blocks of them
    for k_, (gname_, extra_) in enumerate((("G1", 69), ("G2", 3), ("G3c", 301), ("G2k", 77))):
        geo_ = dict(S.geoms("thorough")[gname_])
        need_ = -(-geo_["vclusters"] // ((1 << geo_["cb"]) // 8))
        rng_ = random.Random(chk.seed * 17 + k_)
        im_ = S.image_shaped(rng_, geo_, 1, frac=0.2, kinds=("data", "zero"), l1_entries=need_ + extra_)
        bpc_ = 1 << (geo_["cb"] - geo_["bsb"])
        st_ = [{"op": "sweep"}, {"op": "write", "gb": 1, "n": bpc_ + 1}, {"op": "flush"}, {"op": "reopen"}, {"op": "sweep"}]
        scens.append(S.mk(f"c16l-{gname_}", geo_, [im_], st_))
    scens += fam_wide(chk.tier, chk.seed, "c16w", 4 if chk.tier == "quick" else 24)
    scens += fam_regress()
    res, st = Q.run_batch(scens, chk.wd, known=chk.known_tags(), par=12)
    chk.consume(res, st, props=("C16",))
    nontrivial_seq(chk, res)
    return chk.finish("model_checking",
                      "Inv_C16 on every Req event (offset, length, buffer address modulo block size) of seeded histories with block sizes 512-4096",
                      BASE_ASSUME)


def check_C04(chk):
    n = 30 if chk.tier == "quick" else 400
    w = dict(write=45, read=5, discard=12, flush=14, fsync=4, shrink=5, reopen=3)
    scens = fam_seq(chk.tier, chk.seed, "c04", n, 14 if chk.tier == "quick" else 24, weights=w, sweep_every=0,
                    geoms=["G1", "G2", "G2k", "G4", "G3a", "G6"])
    scens += fam_backing(chk.tier, chk.seed, "c04b", n // 3, 10)
    scens += fam_conc_disjoint(chk.tier, chk.seed, "c04c", 40 if chk.tier == "quick" else 600)
    scens += fam_exhaustive(chk.tier, "c04e", seed=chk.seed)
    scens += fam_exhaustive_par(chk.tier, "c04p", seed=chk.seed)
    scens += fam_park(chk.tier, "c04k", variants=("plain", "backing"), seed=chk.seed)
    scens += fam_exhaustive(chk.tier, "c04x", variants=("pressure",), depth=2 if chk.tier == "quick" else 3, seed=chk.seed)
    scens += fam_exhaustive_par(chk.tier, "c04y", variants=("pressure",), parn=2, seeds=(1,), sample=150 if chk.tier == "quick" else 1500, seed=chk.seed)
    scens += fam_park3(chk.tier, "c04t", seed=chk.seed, variants=("plain", "backing", "special") if chk.tier == "quick" else ("plain", "backing", "special", "pressure"))
    scens += [s_ for s_ in fam_growth(chk.tier, chk.seed, "c04g", 8 if chk.tier == "quick" else 48) if "-2-" in s_["name"] or "-3-" in s_["name"] or "-1-" in s_["name"]]
    scens += fam_regress()
    res, st = Q.run_batch(scens, chk.wd, mode="crash", known=chk.known_tags(), par=14)
    chk.consume(res, st, props=("C04",))
    nontrivial_seq(chk, res)
    metaflush_design(chk)
    return chk.finish("model_checking",
                      "crash branching in TLC at the end of every fsync epoch and at the end of every recorded run: every subset (per block) of the "
                      "metadata-relevant un-synced requests (<=10 pairs exhaustive, else subsets of size <=2 and >=n-2), data-only blocks all-kept and all-lost; "
                      "Inv_C04 = Safe(image) on every distinct crash image",
                      BASE_ASSUME + ["crash model: a request is durable once an fsync issued after its completion has completed; "
                                     "per-block independence of un-synced requests; crash images within one fsync epoch are monotone, so only epoch ends are expanded"])


def check_C05(chk):
    n = 30 if chk.tier == "quick" else 400
    w = dict(write=40, read=3, discard=12, flush=18, fsync=16, shrink=4, reopen=2)
    scens = fam_seq(chk.tier, chk.seed, "c05", n, 16 if chk.tier == "quick" else 26, weights=w, sweep_every=0,
                    geoms=["G1", "G2", "G2k", "G4", "G3a", "G6"])
    scens += fam_backing(chk.tier, chk.seed, "c05b", n // 3, 10)
    scens += fam_conc_disjoint(chk.tier, chk.seed, "c05c", 40 if chk.tier == "quick" else 600)
    scens += fam_exhaustive(chk.tier, "c05e", seed=chk.seed)
    scens += fam_exhaustive_par(chk.tier, "c05p", seed=chk.seed)
    scens += fam_park(chk.tier, "c05k", variants=("plain", "backing"), seed=chk.seed)
    scens += fam_exhaustive(chk.tier, "c05x", variants=("pressure",), depth=2 if chk.tier == "quick" else 3, seed=chk.seed)
    scens += fam_exhaustive_par(chk.tier, "c05y", variants=("pressure",), parn=2, seeds=(1,), sample=150 if chk.tier == "quick" else 1500, seed=chk.seed)
    scens += fam_park3(chk.tier, "c05t", seed=chk.seed, variants=("plain", "backing", "special") if chk.tier == "quick" else ("plain", "backing", "special", "pressure"))
    scens += fam_outage(chk.tier, chk.seed, "c05o", 4 if chk.tier == "quick" else 24)
    scens += fam_regress()
    res, st = Q.run_batch(scens, chk.wd, mode="crash", known=chk.known_tags(), par=14)
    chk.consume(res, st, props=("C05",))
    nontrivial_seq(chk, res)
    return chk.finish("model_checking",
                      "as C04, with Inv_C05 on every distinct crash image: the spec's reader must return for every guest block the value at the last "
                      "sync point (flush_meta Ok then fsync_range Ok) or a value of an operation issued afterwards",
                      BASE_ASSUME)


def check_C06(chk):
    n = 120 if chk.tier == "quick" else 3000
    scens = fam_conc(chk.tier, chk.seed, "c06", n)
    scens += fam_same_target(chk.tier, chk.seed, "c06s", 40 if chk.tier == "quick" else 600)
    scens += fam_conc(chk.tier, chk.seed, "c06b", n // 4, backing=True)
    scens += fam_cowread(chk.tier, chk.seed, "c06r", 30 if chk.tier == "quick" else 500)
    scens += fam_exhaustive_par(chk.tier, "c06p", seed=chk.seed, seeds=(1, 2, 3))
    scens += fam_park(chk.tier, "c06k", seed=chk.seed)
    scens += fam_exhaustive_par(chk.tier, "c06x", variants=("pressure",), parn=2, seeds=(1,) if chk.tier == "quick" else (1, 2), sample=300 if chk.tier == "quick" else 1500, seed=chk.seed)
    scens += fam_park(chk.tier, "c06y", variants=("pressure",), nths=(2, 5, 8) if chk.tier == "quick" else (1, 2, 3, 5, 7, 9), light=True, seed=chk.seed)
    scens += fam_park3(chk.tier, "c06t", seed=chk.seed)
    scens += fam_regress()
    res, st = Q.run_batch(scens, chk.wd, known=chk.known_tags(), par=14)
    chk.consume(res, st, props=("C06", "C01", "C02"))
    for name, r in res.items():
        if r["summary"].get("max_conc", 0) >= 2:
            chk.nontrivial.add(json.dumps(r["summary"].get("sched")))
    chk.extra["schedules"] = len(chk.nontrivial)
    return chk.finish("model_checking",
                      "groups of 2-4 overlapping calls (same-cluster sub-ranges, overlapping, disjoint, flush/shrink/discard) under seeded random and "
                      "PCT schedules at every suspension point; TLC searches the placements of per-block linearization points (normalised to sit "
                      "immediately before a Ret); non-trivial = distinct schedule in which >= 2 calls were in flight together",
                      BASE_ASSUME)


U64 = (1 << 64) - 1


def arg_values(cls_off, cls_len, geo, rng):
    """concrete (offset, length) for an abstract case of GenArgs.tla"""
    bs = 1 << geo["bsb"]
    cs = 1 << geo["cb"]
    vs = (geo["vclusters"] << geo["cb"]) - geo.get("size_minus_sectors", 0) * 512
    off = {
        "zero": 0, "one_block": bs, "unaligned_small": rng.choice([1, 7, bs // 2]),
        "unaligned_mid": cs * rng.randrange(1, 4) + rng.choice([1, bs - 1, bs + 7]),
        "cluster_start": cs * rng.randrange(1, geo["vclusters"] - 1),
        "cluster_minus_block": cs * rng.randrange(1, geo["vclusters"] - 1) - bs,
        "last_block": vs // bs * bs - bs if vs % bs == 0 else vs // bs * bs,
        "end_minus_1": vs - 1, "end": vs, "end_plus_1": vs + 1, "end_plus_block": vs + bs,
        "huge": rng.choice([1 << 40, (1 << 62) + bs, 1 << 63]), "max_minus_block": U64 - bs + 1,
        "max_minus_1": U64 - 1, "max": U64,
    }[cls_off]
    to_cl_end = cs - off % cs
    ln = {
        "zero": 0, "one": 1, "block_minus_1": bs - 1, "block": bs, "block_plus_1": bs + 1, "two_blocks": 2 * bs,
        "to_cluster_end": to_cl_end, "cluster": cs, "cluster_plus_block": cs + bs,
        "to_end": max(0, vs - off) if off <= vs else bs, "to_end_plus_block": (max(0, vs - off) if off <= vs else bs) + bs,
        "big": (1 << 20) + rng.choice([0, bs, 1]), "max": U64,
    }[cls_len]
    ln = min(ln, 4 << 20) if cls_len != "max" else ln
    return off, ln


def check_C13(chk):
    cases, gen, dist = Q.tlc_enumerate("GenArgs.tla")
    rng = random.Random(chk.seed)
    G = S.geoms(chk.tier)
    geos = [("G1", 0), ("G3c", 0), ("G2k", 1), ("G3b", 0)] if chk.tier == "quick" else \
        [("G1", 0), ("G2", 0), ("G2", 1), ("G2k", 0), ("G2k", 1), ("G3a", 0), ("G3a", 1), ("G3a", 7), ("G3b", 0), ("G3c", 0), ("G3c", 2), ("G6", 0)]
    scens = fam_regress()
    per = 28
    reps = 1 if chk.tier == "quick" else 3
    ncase = 0
    for gname, minus in geos:
        geo = dict(G[gname], vclusters=16, size_minus_sectors=minus)
        for mode in ("rw", "ro", "backing"):
            ops = []
            for rep in range(reps):
                cs_ = list(cases)
                rng.shuffle(cs_)
                for op, oc, lc in cs_:
                    off, ln = arg_values(oc, lc, geo, rng)
                    ops.append({"op": {"read": "read_raw", "write": "write_raw", "discard": "discard_raw"}[op],
                                "off": str(off), "len": str(ln)})
            ncase += len(ops)
            for k in range(0, len(ops), per):
                steps = []
                if mode != "ro":
                    steps += [{"op": "write", "gb": 0, "n": 3}, {"op": "write", "gb": (geo["vclusters"] - 1) << (geo["cb"] - geo["bsb"]), "n": 1}]
                for o in ops[k:k + per]:
                    steps += [o, {"op": "sweep"}]
                steps += [{"op": "flush"}, {"op": "sweep"}] if mode != "ro" else []
                images = [S.image_shaped(rng, geo, 1, frac=0.4, kinds=("data", "zero"), size_minus_sectors=minus)]
                if mode == "backing":
                    images.append(S.image_shaped(rng, geo, 2, frac=0.6, kinds=("data",)))
                scens.append(S.mk(f"c13-{gname}-{minus}-{mode}-{k}", geo, images, steps, top_ro=(mode == "ro")))
    res, st = Q.run_batch(scens, chk.wd, known=chk.known_tags(), par=14)
    chk.consume(res, st, props=("C13", "PANIC"))
    chk.stats["states"] += gen
    chk.nontrivial = set(json.dumps(c) for c in cases)
    chk.extra.update(dict(exhaustive=True, argument_classes=len(cases), concrete_cases=ncase))
    return chk.finish("model_checking",
                      "spec/GenArgs.tla enumerates the full product op x offset class x length class (exhaustive over classes); every class is "
                      "instantiated with concrete u64 values per geometry (block sizes 512-4096, virtual size aligned and unaligned) on writable, "
                      "read-only and backing-chain devices; Validate.tla decides the admissible result from the measured classes; Inv_C13 also "
                      "forbids modifying requests during rejected calls; the sweep after every case checks that guest content is unchanged",
                      BASE_ASSUME + ["metadata-unchanged clause is checked through guest content and the absence of W/P requests only"])


def check_C10(chk):
    """COW merges correctly; read-only sources are never written"""
    n = 60 if chk.tier == "quick" else 800
    rng = random.Random(chk.seed * 31 + 10)
    G = S.geoms(chk.tier)
    scens = fam_backing(chk.tier, chk.seed, "c10", n, 18)
    # targeted: partial / straddling writes over every backing-provided and compressed cluster
    names = ["G1", "G2", "G2k", "G3a", "G3c", "G6", "G4"]
    for i in range(n // 2):
        geo = G[names[i % len(names)]]
        bpc = 1 << (geo["cb"] - geo["bsb"])
        vc = min(geo["vclusters"], 40)
        geo = dict(geo, vclusters=vc)
        top = S.image_shaped(rng, geo, 1, frac=0.5, kinds=("comp", "comp", "data", "zero"))
        images = [top]
        for d in range(rng.choice([1, 1, 2])):
            images.append(S.image_shaped(rng, geo, 2 + d, frac=0.7, kinds=("data", "zero"),
                                         vclusters=vc + rng.choice([0, -vc // 3, 6])))
        steps = []
        order = list(range(vc))
        rng.shuffle(order)
        for g in order[:rng.randrange(6, 14)]:
            off = rng.randrange(bpc)
            ln = rng.choice([1, bpc - off, bpc - off + 1, bpc])
            gb = g * bpc + off
            ln = max(1, min(ln, vc * bpc - gb))
            steps.append({"op": "write", "gb": gb, "n": ln})
            r = rng.random()
            if r < 0.3:
                steps.append({"op": "sweep"})
            elif r < 0.45:
                steps.append({"op": "flush"})
            elif r < 0.55:
                steps.append({"op": "discard", "gb": g * bpc, "n": bpc})
            elif r < 0.62:
                steps += [{"op": "flush"}, {"op": "reopen"}]
            elif r < 0.7:
                steps.append({"op": "shrink"})
        steps += [{"op": "sweep"}, {"op": "flush"}, {"op": "sweep"}, {"op": "reopen"}, {"op": "sweep"}]
        scens.append(S.mk(f"c10t-{i}", geo, images, steps))
    scens += fam_cowread(chk.tier, chk.seed, "c10r", 40 if chk.tier == "quick" else 600)
    scens += fam_exhaustive(chk.tier, "c10e", seed=chk.seed)
    scens += fam_exhaustive_par(chk.tier, "c10p", seed=chk.seed, seeds=(1, 2))
    scens += fam_park(chk.tier, "c10k", variants=("backing", "special", "backing_short"), seed=chk.seed)
    scens += [s_ for s_ in fam_exhaustive_faults(chk.tier, "c10f", seed=chk.seed) if "-backing-" in s_["name"] or "-special-" in s_["name"]]
    scens += fam_regress()
    res, st = Q.run_batch(scens, chk.wd, known=chk.known_tags(), par=14)
    chk.consume(res, st, props=("C10", "C01", "C02", "C03", "PANIC"))
    nontrivial_seq(chk, res)
    return chk.finish("model_checking",
                      "partial/straddling writes over backing-provided and compressed clusters (chains of depth 1-3, backing shorter/longer than the top), "
                      "mixed with reads, discards, flushes, reopen; FlatDisk initial content comes from the builder's ground truth of the chain; Inv_C10 "
                      "forbids any non-read request on read-only devices; exact release of compressed clusters = Inv_C03 after flush",
                      BASE_ASSUME)


def check_C11(chk):
    """discard contract"""
    n = 50 if chk.tier == "quick" else 600
    rng = random.Random(chk.seed * 31 + 11)
    G = S.geoms(chk.tier)
    names = ["G1", "G2", "G2k", "G3a", "G3c", "G6"]
    scens = []
    for i in range(n):
        geo = G[names[i % len(names)]]
        vc = min(geo["vclusters"], 32)
        geo = dict(geo, vclusters=vc)
        bs, cs = 1 << geo["bsb"], 1 << geo["cb"]
        bpc = cs // bs
        backing = i % 2 == 1
        images = [S.image_shaped(rng, geo, 1, frac=0.6, kinds=("data", "data", "zero", "zero_prealloc", "comp"))]
        if backing:
            images.append(S.image_shaped(rng, geo, 2, frac=0.8, kinds=("data",), vclusters=vc + rng.choice([0, -8, 8])))
        steps = [{"op": "write", "gb": rng.randrange(vc * bpc), "n": 1} for _ in range(rng.randrange(0, 4))]
        vs = vc * cs
        for k in range(rng.randrange(5, 12)):
            r = rng.random()
            if r < 0.55:
                c0 = rng.randrange(vc)
                off = c0 * cs + rng.choice([0, 0, bs, cs - bs, 1, cs // 2 + 3])
                ln = rng.choice([cs, 2 * cs, cs + bs, cs - bs, 3 * cs + 1, 0, bs])
            elif r < 0.7:
                off, ln = rng.choice([(0, vs), (0, U64), (vs - cs, 2 * cs), (vs, cs), (vs + 1, U64 - vs - 1), (U64, 1), (U64 - 5, U64),
                                      (cs // 2, vs)])
            else:
                off, ln = rng.randrange(vs), rng.randrange(4 * cs)
            steps.append({"op": "discard_raw", "off": str(off), "len": str(ln)})
            steps.append({"op": "sweep"})
            if rng.random() < 0.3:
                gb = rng.randrange(vc * bpc)
                steps.append({"op": "write", "gb": gb, "n": min(rng.randrange(1, 2 * bpc + 1), vc * bpc - gb)})
            if rng.random() < 0.3:
                steps.append({"op": "flush"})
        steps += [{"op": "flush"}, {"op": "sweep"}, {"op": "reopen"}, {"op": "sweep"}]
        scens.append(S.mk(f"c11-{i}", geo, images, steps))
    scens += fam_wide(chk.tier, chk.seed, "c11w", 10 if chk.tier == "quick" else 100)
    scens += fam_exhaustive(chk.tier, "c11e", seed=chk.seed)
    scens += fam_exhaustive_par(chk.tier, "c11p", seed=chk.seed, seeds=(1, 2))
    scens += fam_park(chk.tier, "c11k", variants=("plain", "backing", "backing_short"), seed=chk.seed)
    scens += fam_regress()
    res, st = Q.run_batch(scens, chk.wd, known=chk.known_tags(), par=14)
    chk.consume(res, st, props=("C11", "C01", "C02", "C03", "C07", "PANIC"))
    nontrivial_seq(chk, res)
    return chk.finish("model_checking",
                      "discard(offset, len) over classes (aligned, unaligned, zero length, straddling, beyond the end, u64::MAX neighbourhood) x cluster "
                      "states (data, zero, preallocated zero, compressed, backing-provided, unallocated) x with/without backing; the FlatDisk model applies "
                      "C11 by cluster kind (ApplyCur/ApplyKind); sweeps after every discard, Inv_C03 after flush (space released), reopen sweep",
                      BASE_ASSUME)


def check_C12(chk):
    """metadata growth"""
    rng = random.Random(chk.seed * 31 + 12)
    G = S.geoms(chk.tier)
    scens = []
    n = 10 if chk.tier == "quick" else 80
    for i in range(n):
        kind = i % 3
        if kind == 0:
            # new refblocks: 64-bit refcounts, 512-byte clusters -> 64 clusters per refblock
            geo = dict(G["G4"], vclusters=rng.choice([200, 260]))
            images = [S.image_shaped(rng, geo, 1, frac=rng.choice([0.0, 0.25]), kinds=("data", "zero"))]
            nw = 50 if chk.tier == "quick" else 120
        elif kind == 1:
            # fewer L1 entries in the header than the virtual size needs
            geo = dict(G[rng.choice(["G1", "G2"])])
            need = -(-geo["vclusters"] // ((1 << geo["cb"]) // 8))
            images = [S.image_shaped(rng, geo, 1, frac=0.1, kinds=("data", "zero"), l1_entries=rng.randrange(1, need + 1))]
            nw = 20
        else:
            # refblock slices + allocator across slice boundaries
            geo = dict(cb=12, ro=6, bsb=9, vclusters=100, params={"l2": [9, 1024], "rb": [9, 1024]})
            images = [S.image_plain(geo, "build", shuffle=rng.randrange(1 << 20))]
            nw = 40
        bpc = 1 << (geo["cb"] - geo["bsb"])
        steps = []
        for k in range(nw):
            c = rng.randrange(geo["vclusters"])
            ncl = rng.choice([1, 1, 1, 2, 3, 5])
            gb = c * bpc + rng.randrange(bpc)
            ln = max(1, min(ncl * bpc, geo["vclusters"] * bpc - gb))
            steps.append({"op": "write", "gb": gb, "n": ln})
            r = rng.random()
            if r < 0.08:
                steps.append({"op": "flush"})
            elif r < 0.14:
                steps.append({"op": "discard", "gb": c * bpc, "n": bpc * rng.randrange(1, 4)})
            elif r < 0.17:
                steps += [{"op": "flush"}, {"op": "reopen"}]
        steps += [{"op": "sweep"}, {"op": "flush"}, {"op": "sweep"}, {"op": "reopen"}, {"op": "sweep"}]
        scens.append(S.mk(f"c12-{kind}-{i}", geo, images, steps))
    # more active L1 entries: the header lists fewer entries than the virtual size needs, the writes land
    # on the entries around the listed end and around the L1 table's block boundaries (64 entries per 512 bytes)
    for i in range(6 if chk.tier == "quick" else 60):
        geo = dict(cb=9, ro=4, bsb=9, vclusters=64 * rng.choice([66, 70, 130]), params={"l2": [9, 1024], "rb": [9, 1024]})
        l2n, nl1 = 64, geo["vclusters"] // 64
        listed = rng.choice([1, 2, 63, 64, 65, min(nl1 - 1, 127), min(nl1 - 1, 128)])
        img = S.image_shaped(rng, geo, 1, frac=0.0, kinds=("data",), l1_entries=listed, shuffle=0)
        # a few clusters below the listed end so that the image is not empty
        img["desc"]["clusters"] = [{"g": rng.randrange(min(listed, nl1) * l2n), "kind": "data", "wid": 1} for _ in range(4)]
        img["desc"]["clusters"] = list({c["g"]: c for c in img["desc"]["clusters"]}.values())
        cand = sorted({x for x in [listed - 1, listed, listed + 1, 63, 64, 65, 127, 128, nl1 - 1] if 0 <= x < nl1})
        steps, touched = [], []
        for k in range(rng.randrange(3, 8)):
            i1 = rng.choice(cand) if k else (listed if listed < nl1 else rng.choice(cand))
            c = i1 * l2n + rng.choice([0, 1, l2n - 1])
            steps.append({"op": "write", "gb": c, "n": rng.choice([1, 1, 2])})
            touched.append(c)
            if rng.random() < 0.5:
                steps += [{"op": "flush"}, {"op": "fsync"}]
            if rng.random() < 0.2:
                steps += [{"op": "flush"}, {"op": "reopen"}]
        rd = [{"op": "read", "gb": c, "n": 2} for c in touched]
        steps += [{"op": "flush"}, {"op": "fsync"}] + rd + [{"op": "reopen"}] + rd
        scens.append(S.mk(f"c12-l1-{i}", geo, [img], steps))
    scens += fam_growth(chk.tier, chk.seed, "c12g", 8 if chk.tier == "quick" else 96)
    gr_ = fam_growth(chk.tier, chk.seed, "c12c", 56 if chk.tier == "quick" else 168, conc=True)
    for s_ in gr_:
        s_["sched_sweep"] = 20 if chk.tier == "quick" else 60
    scens += gr_
    scens += fam_wide_faults(chk.tier, chk.seed, "c12f")
    scens += fam_regress()
    res, st = Q.run_batch(scens, chk.wd, mode="crash", known=chk.known_tags(), par=14)
    chk.consume(res, st, props=("C12", "C01", "C02", "C03", "C04", "C05", "C07", "PANIC"))
    nontrivial_seq(chk, res)
    return chk.finish("model_checking",
                      "histories that cross refblock capacity (64-bit refcounts, 512-byte clusters: 64 clusters per refblock), use images whose header "
                      "lists fewer L1 entries than the virtual size needs (writes at the listed end and at L1-block boundaries 63/64/127/128), allocate "
                      "across refblock-slice boundaries, and - with the allocator's free hint put at the start of a far refblock through hook H4 - cross "
                      "the last entry of a refcount-table block and the end of the refcount table (table enlarged, relocated, header switched; also growth "
                      "that skips entries); C01-C05 invariants incl. crash branching at every fsync of the growth sequence are evaluated on them; writes "
                      "must return Ok (Inv_C07b)",
                      BASE_ASSUME + ["far host offsets are reached by setting the allocator's free hint to the first cluster of a refblock that does not "
                                     "exist yet (a state the allocator itself produces when a refblock is used up), not by writing gigabytes"])


def check_C17(chk):
    """backend faults: one run per backend request index of each history"""
    rng = random.Random(chk.seed * 31 + 17)
    G = S.geoms(chk.tier)
    nh = 6 if chk.tier == "quick" else 60
    scens = []
    names = ["G1", "G2", "G4", "G2k", "G3a"]
    for h in range(nh):
        geo = G[names[h % len(names)]]
        bpc = 1 << (geo["cb"] - geo["bsb"])
        backing = h % 3 == 2
        images = [S.image_shaped(rng, geo, 1, frac=0.2, kinds=("data", "zero", "comp") if backing else ("data", "zero"))]
        if backing:
            images.append(S.image_shaped(rng, geo, 2, frac=0.6, kinds=("data",)))
        pre = S.seq_history(rng, geo, 4, sweep_every=0, final=False,
                            weights=dict(write=60, discard=10, flush=20, read=0, shrink=5, reopen=0, fsync=0, check=0))
        # the faulted section: 3 operations
        ops = S.seq_history(rng, geo, 3, sweep_every=0, final=False,
                            weights=dict(write=55, discard=15, flush=20, read=5, shrink=5, reopen=0, fsync=0, check=0))
        tail = [{"op": "recover", "retries": 4}, {"op": "sweep"}, {"op": "flush"}, {"op": "reopen"}, {"op": "sweep"}]
        nfault = 26 if chk.tier == "quick" else 40
        for k in range(nfault):
            steps = list(pre) + [{"op": "fail_next", "nth": k, "partial": k % 3 == 2}] + list(ops) + [{"op": "flush"}] + tail
            scens.append(S.mk(f"c17-{h}-f{k}", geo, images, steps))
        # a window in which every request fails
        steps = list(pre) + [{"op": "fail_all", "on": True}] + list(ops) + [{"op": "flush"}] + tail
        scens.append(S.mk(f"c17-{h}-all", geo, images, steps))
        # hole punching unsupported: must fall back to zero writes
        scens.append(S.mk(f"c17-{h}-nopunch", geo, images, list(pre) + list(ops) + [{"op": "sweep"}, {"op": "flush"}, {"op": "reopen"}, {"op": "sweep"}],
                          punch_unsupported=True))
    scens += fam_growth(chk.tier, chk.seed, "c17g", 4 if chk.tier == "quick" else 24, faults=8 if chk.tier == "quick" else 2)
    scens += fam_exhaustive_faults(chk.tier, "c17e", seed=chk.seed)
    scens += fam_outage(chk.tier, chk.seed, "c17o", 6 if chk.tier == "quick" else 40)
    # (d) a fault at each request of the first qcow2_prep_io() (loading the L1 and refcount tables); the call is repeated
    for vi, (v, im) in enumerate(_exh_images().items()):
        for k in range(4):
            geo_ = dict(cb=10, ro=4, bsb=9, vclusters=4, params={"l2": [9, 1024], "rb": [9, 1024]})
            rd_ = {"op": "read", "gb": 0, "n": 8}
            scens.append(S.mk(f"c17prep-{v}-{k}", geo_, im, [rd_, {"op": "write", "gb": 3, "n": 3}, rd_, {"op": "flush"}, rd_, {"op": "reopen"}, rd_],
                              prep_fault=k))
    # (b) hole punching unsupported AND a fault at each request (the zero-write fallback itself can fail); after recovery the
    # caches are dropped and the touched slices are used again before the final reopen
    for h in range(2 if chk.tier == "quick" else 16):
        geo = G[["G1", "G4", "G2"][h % 3]]
        bpc = 1 << (geo["cb"] - geo["bsb"])
        vc = geo["vclusters"]
        images = [S.image_plain(geo, "build")]
        cs = [rng.randrange(vc) for _ in range(3)]
        ops = [{"op": "write", "gb": c * bpc + rng.randrange(bpc), "n": 1} for c in cs] + [{"op": "flush"}]
        again = [{"op": "write", "gb": ((c + 1) % vc) * bpc, "n": 1} for c in cs]
        tail = [{"op": "recover", "retries": 4}, {"op": "shrink"}] + again + [{"op": "flush"}, {"op": "sweep"}, {"op": "reopen"}, {"op": "sweep"}]
        for k in range(20 if chk.tier == "quick" else 30):
            scens.append(S.mk(f"c17-np{h}-f{k}", geo, images, [{"op": "fail_next", "nth": k, "partial": False}] + ops + tail,
                              punch_unsupported=True))
    scens += fam_wide_faults(chk.tier, chk.seed, "c17")
    res, st = Q.run_batch(scens, chk.wd, known=chk.known_tags(), par=14)
    chk.consume(res, st, props=("C17", "C07", "C01", "PANIC"))
    nf = sum(r["summary"].get("faults", 0) for r in res.values())
    for name, r in res.items():
        if r["summary"].get("faults", 0) > 0:
            chk.nontrivial.add(name)
    chk.extra["faults_injected"] = nf
    return chk.finish("fault_enumeration",
                      "for each history one run per backend request index (read, write, punch, fsync; every third a partial write), one run with "
                      "every request failing, one with hole punching unsupported; then faults off, flush_meta retried until Ok, sweep, reopen, sweep. "
                      "TLC: a failed call may or may not have taken effect per block (cur becomes a set), Inv_C07a (no panic/hang), Inv_C07b (Err only "
                      "when a fault hit the call), Inv_C17 (after recovery Safe and every acknowledged write readable); non-trivial = run in which a "
                      "fault was actually injected",
                      BASE_ASSUME + ["a failed write has no effect or a prefix of its blocks is applied (both simulated)"])


def check_C07(chk):
    """progress: no deadlock, livelock or spurious failure"""
    n = 200 if chk.tier == "quick" else 2000
    scens = fam_conc(chk.tier, chk.seed, "c07", n, groups=3, maxops=5)
    scens += fam_conc(chk.tier, chk.seed, "c07b", n // 4, backing=True, groups=2, maxops=4)
    # schedule sweep: each scenario is also run under further schedule seeds inside the harness (no trace, no TLC);
    # the first run that hangs or panics replaces the base run and is then judged like any other
    for s_ in scens:
        s_["sched_sweep"] = 12 if chk.tier == "quick" else 40
    gr = fam_growth(chk.tier, chk.seed, "c07g", 48 if chk.tier == "quick" else 200, conc=True)
    for s_ in gr:
        s_["sched_sweep"] = 40 if chk.tier == "quick" else 100
    scens += gr
    scens += fam_exhaustive_par(chk.tier, "c07p", seed=chk.seed, sweep=3 if chk.tier == "quick" else 5)
    scens += fam_park(chk.tier, "c07k", seed=chk.seed)
    scens += fam_exhaustive_par(chk.tier, "c07x", variants=("pressure",), parn=2, seeds=(1,), sweep=3, sample=300 if chk.tier == "quick" else 1500, seed=chk.seed)
    scens += fam_park3(chk.tier, "c07t", seed=chk.seed)
    scens += fam_park(chk.tier, "c07y", variants=("pressure",), nths=(2, 5, 8) if chk.tier == "quick" else (1, 2, 3, 5, 7, 9), light=True, seed=chk.seed)
    scens += fam_regress()
    res, st = Q.run_batch(scens, chk.wd, known=chk.known_tags(), par=14)
    chk.consume(res, st, props=("C07", "PANIC"))
    for name, r in res.items():
        if r["summary"].get("max_conc", 0) >= 2:
            chk.nontrivial.add(json.dumps(r["summary"].get("sched")))
    chk.extra["schedules"] = len(chk.nontrivial)
    return chk.finish("model_checking",
                      "groups of 2-5 overlapping calls (writes to same/sibling slices and clusters, reads, discards, flush_meta, shrink_caches) with "
                      "2-slice caches under seeded random/PCT schedules; the executor reports deadlock (unfinished tasks, nothing runnable, nothing in "
                      "flight) and livelock (step budget); Inv_C07a/b on the trace",
                      BASE_ASSUME)


def check_C18(chk):
    """need_flush_meta() == false implies file and memory agree"""
    n = 160 if chk.tier == "quick" else 3000
    scens = fam_conc(chk.tier, chk.seed, "c18", n, groups=3, maxops=4)
    for s in scens:
        s["sample_flag"] = True
        # make sure flush/shrink overlap the writers
        for st_ in s["steps"]:
            if st_.get("op") == "par" and not any(o["op"] in ("flush", "shrink") for o in st_["ops"]):
                st_["ops"].insert(len(st_["ops"]) // 2, {"op": "flush"})
    seqs = fam_seq(chk.tier, chk.seed, "c18s", 20 if chk.tier == "quick" else 200, 20, sweep_every=5)
    for s in seqs:
        s["sample_flag"] = True
    scens += seqs
    scens += fam_exhaustive(chk.tier, "c18e", seed=chk.seed)
    scens += fam_exhaustive_par(chk.tier, "c18p", seed=chk.seed, seeds=(1, 2, 3), probe=True, sweep=10 if chk.tier == "quick" else 40)
    scens += fam_park(chk.tier, "c18k", seed=chk.seed)
    scens += fam_exhaustive_par(chk.tier, "c18x", variants=("pressure",), parn=2, seeds=(1,), sample=300 if chk.tier == "quick" else 1500, seed=chk.seed)
    scens += fam_park3(chk.tier, "c18t", seed=chk.seed)
    fl_ = fam_exhaustive_faults(chk.tier, "c18f", seed=chk.seed)
    for s_ in fl_:
        s_["sample_flag"] = True
    scens += fl_
    scens += fam_regress()
    res, st = Q.run_batch(scens, chk.wd, known=chk.known_tags(), par=14)
    chk.consume(res, st, props=("C18",))
    for name, r in res.items():
        if r["summary"].get("max_conc", 0) >= 2:
            chk.nontrivial.add(json.dumps(r["summary"].get("sched")))
    return chk.finish("model_checking",
                      "need_flush_meta() sampled by the executor after every scheduler step (recorded on change); Inv_C18 at every quiescent point "
                      "with the flag clear: the spec's reader on the visible file gives the FlatDisk content and the image is safe; schedules overlap "
                      "writers/discarders with flush_meta/shrink_caches",
                      BASE_ASSUME)


def metaflush_design(chk):
    """Design-level model of the cache/disk ordering protocol (spec/MetaFlush.tla): crash safe with all of the
    code's ordering rules (exhaustive TLC), and NOT crash safe without each single one (the model is not vacuous:
    every rule is load-bearing).  A failure here is a defect of the model, i.e. a tool error, never a violation."""
    import subprocess
    def run(cfg):
        md = os.path.join(Q.VERIF, "work", "gen", "mf_" + cfg)
        try:
            p = subprocess.run(["tlc", "-workers", "4", "-metadir", md, "-cleanup", "-noGenerateSpecTE", "-config", cfg, "MetaFlush.tla"],
                               cwd=Q.SPEC, stdout=subprocess.PIPE, stderr=subprocess.STDOUT, text=True, timeout=900,
                               env=dict(os.environ, JAVA_TOOL_OPTIONS=Q.JAVA_OPTS))
        finally:
            shutil.rmtree(md, ignore_errors=True)
        m = re.search(r"(\d+) states generated, (\d+) distinct states found", p.stdout)
        return ("No error has been found" in p.stdout, "Invariant CrashSafe is violated" in p.stdout, int(m.group(2)) if m else 0)
    ok, viol, dist = run("MC_MetaFlush.cfg")
    if not ok:
        raise Q.ToolError("spec/MetaFlush.tla: the protocol model with all rules is not crash safe (model defect)")
    needed = {}
    for r in ("RuleMutex", "RuleRcFirst", "RuleBarrier", "RuleUnmapFirst"):
        ok2, viol2, _ = run(f"MC_MetaFlush_no{r}.cfg")
        if not viol2:
            raise Q.ToolError(f"spec/MetaFlush.tla: switching {r} off does not break crash safety (vacuous rule)")
        needed[r] = True
    chk.extra.update(design_protocol_states=dist, design_protocol_rules_shown_necessary=sorted(needed))
    chk.stats["states"] += dist
    chk.stats["distinct"] += dist


def alloc_design(chk):
    """Design-level allocator model (spec/Alloc.tla): TLC checks the contract
    on every state of a tiny geometry (MC_AllocSmall) and evaluates the model
    with the real geometry on boundary-shaped refcount patterns (Gen_Alloc);
    each of those behaviours is replayed into the real allocator through
    hooks H3/H4 and result, refcounts and hint are compared (binding B3)."""
    t0 = time.time()
    _, gen0, dist0 = Q.tlc_enumerate("MC_AllocSmall.tla", need_recs=False, workers=8, timeout=900)
    vecs, gen1, dist1 = Q.tlc_enumerate("Gen_Alloc.tla", env={"QUICK": "1" if chk.tier == "quick" else "0"}, timeout=1800)
    bad = run_alloc_vectors(chk, vecs)
    chk.extra.update(alloc_model_states=dist0, alloc_vectors_replayed=len(vecs), alloc_vectors_mismatched=bad,
                     alloc_seconds=round(time.time() - t0, 1))
    chk.nruns += len(vecs)
    chk.accepted += len(vecs) - bad
    chk.stats["states"] += gen0 + gen1
    chk.stats["distinct"] += dist0 + dist1


def run_alloc_vectors(chk, vecs):
    scens = []
    for i, v in enumerate(vecs):
        scens.append({"name": f"av-{i}", "bsb": 9,
                      "images": [{"kind": "build", "desc": {"cb": 10, "ro": 6, "vclusters": 16, "shuffle": 0, "holes": 0, "clusters": []}}],
                      "params": {"rb": [9, 1024], "l2": [9, 1024]}, "sched": {"policy": "fifo", "seed": 1},
                      "rc_pattern": {"used": v["used"], "rb1": v["rb1"], "hint": v["hint"]},
                      "steps": [{"op": "alloc", "n": v["count"]}, {"op": "rcdump", "n": 384},
                                {"op": "free_alloc", "idx": 0}, {"op": "rcdump", "n": 384}]})
    tp, _, summ = Q.run_harness(scens, chk.wd, "allocvec")
    # split the trace into runs
    runs, cur = [], None
    with open(tp) as f:
        for line in f:
            if '"e":"Reset"' in line:
                cur = []
                runs.append(cur)
            elif cur is not None and ('"e":"Ret"' in line or '"e":"Note"' in line or '"e":"Panic"' in line or '"e":"Stuck"' in line):
                cur.append(json.loads(line))
    if len(runs) != len(vecs):
        raise Q.ToolError(f"allocator replay: {len(runs)} runs for {len(vecs)} vectors")
    # (1) implementation -> specification: the real outcomes are judged against the allocator's
    #     contract by TLC (spec/AllocCheck.tla); only this decides the exit status
    # (2) specification -> implementation: equality with Alloc.tla's own result (which cluster, the
    #     hint) is conformance information; another valid choice is a divergence, not a violation
    outs, diverged = [], 0
    for v, sc, evs in zip(vecs, scens, runs):
        rets = [e for e in evs if e["e"] == "Ret"]
        dumps = [e for e in evs if e["e"] == "Note" and e.get("msg") == "rcdump"]
        panic = any(e["e"] in ("Panic", "Stuck") for e in evs)
        if not panic and (not rets or len(dumps) != 2):
            raise Q.ToolError(f"allocator replay: malformed run {sc['name']}")
        r = rets[0] if rets else {"res": "err"}
        got = [r["c"], r["n"]] if r.get("res") == "ok" else [-1, 0]
        d0 = dumps[0] if dumps else {"used": v["used"], "multi": [], "hint": v["hint"]}
        d1 = dumps[1] if len(dumps) > 1 else d0
        outs.append({"used": sorted(v["used"]), "rb1": v["rb1"], "count": v["count"], "res": got, "panic": 1 if panic else 0,
                     "used_after": d0["used"], "multi": sorted(set(d0.get("multi", [])) | set(d1.get("multi", []))),
                     "used_freed": d1["used"]})
        if not panic and (got != list(v["res"]) or d0["used"] != sorted(v["used_after"]) or d0["hint"] != v["hint_after"]
                          or d1["used"] != sorted(v["used_freed"]) or d1["hint"] != v["hint_freed"]):
            diverged += 1
    op = os.path.join(chk.wd, "alloc_outcomes.ndjson")
    with open(op, "w") as f:
        for o in outs:
            f.write(json.dumps(o) + "\n")
    recs, _, _ = Q.tlc_enumerate("AllocCheck.tla", env={"OUTCOMES": op}, workers=1, timeout=1800, assume_only=True)
    if not any(r["i"] == 0 and r.get("n") == len(outs) for r in recs):
        raise Q.ToolError("AllocCheck.tla did not judge every outcome")
    bad = 0
    for r in recs:
        if r["i"] == 0:
            continue
        bad += 1
        if bad <= 3:
            v, sc = vecs[r["i"] - 1], scens[r["i"] - 1]
            why = "; ".join(sorted(r["bad"]))
            chk.report({"scenario": dict(sc, expected=v)}, chk.prop, f"{sc['name']}: allocate_clusters({v['count']}) -> {outs[r['i'] - 1]['res']}: {why}",
                       "allocvec:" + why[:60])
    chk.extra["alloc_model_divergence"] = chk.extra.get("alloc_model_divergence", 0) + diverged
    if diverged:
        Q.log(f"  note: {diverged} of {len(vecs)} allocator outcomes differ from Alloc.tla's own choice (contract still judged per outcome)")
    return bad


def check_C08(chk):
    """one owner per host cluster; allocator never double-allocates; reuse"""
    rng = random.Random(chk.seed * 31 + 8)
    G = S.geoms(chk.tier)
    scens = []
    n = 24 if chk.tier == "quick" else 300
    gl = [dict(cb=12, ro=6, bsb=9, vclusters=64, params={"l2": [9, 1024], "rb": [9, 1024]}),   # 64 refcounts per slice
          dict(cb=12, ro=4, bsb=9, vclusters=64, params={"l2": [9, 1024], "rb": [9, 1536]}),   # 256 per slice
          G["G4"], G["G1"], G["G6"], dict(cb=10, ro=5, bsb=9, vclusters=100, params={"l2": [9, 1024], "rb": [9, 1024]})]
    for i in range(n):
        geo = gl[i % len(gl)]
        bpc = 1 << (geo["cb"] - geo["bsb"])
        images = [S.image_plain(geo, "build", shuffle=rng.randrange(1 << 20), holes=rng.choice([0, 2]))
                  if i % 3 else S.image_shaped(rng, geo, 1, frac=0.3, kinds=("data", "zero", "comp"))]
        steps = []
        kind = i % 4
        if kind in (0, 1):
            # allocator histories driven through the hook: single and multi
            # cluster runs, frees that fragment the space, slice boundaries
            for k in range(rng.randrange(20, 50)):
                r = rng.random()
                if r < 0.6:
                    steps.append({"op": "alloc", "n": rng.choice([1, 1, 1, 2, 3, 5, 8, 20, 70])})
                elif r < 0.9:
                    steps.append({"op": "free_alloc", "idx": rng.randrange(100)})
                elif r < 0.95:
                    gb = rng.randrange(geo["vclusters"]) * bpc
                    steps.append({"op": "write", "gb": gb, "n": min(bpc * rng.randrange(1, 4), geo["vclusters"] * bpc - gb)})
                else:
                    steps.append({"op": "flush"})
            steps += [{"op": "flush"}]
            scens.append(S.mk(f"c08a-{i}", geo, images, steps, sample_ram=True))
        elif kind == 2:
            # concurrent allocators and writers
            for gidx in range(3):
                ops = []
                for k in range(rng.randrange(2, 5)):
                    r = rng.random()
                    if r < 0.5:
                        ops.append({"op": "alloc", "n": rng.choice([1, 2, 3, 6])})
                    elif r < 0.7:
                        ops.append({"op": "free_alloc", "idx": rng.randrange(100)})
                    elif r < 0.9:
                        gb = rng.randrange(geo["vclusters"]) * bpc
                        ops.append({"op": "write", "gb": gb, "n": min(bpc * rng.randrange(1, 3), geo["vclusters"] * bpc - gb)})
                    else:
                        gb = rng.randrange(geo["vclusters"]) * bpc
                        ops.append({"op": "discard", "gb": gb, "n": min(bpc * 2, geo["vclusters"] * bpc - gb)})
                steps.append({"op": "par", "ops": ops})
            steps += [{"op": "flush"}, {"op": "sweep"}]
            scens.append(S.mk(f"c08c-{i}", geo, images, steps, sample_ram=True,
                              sched={"policy": rng.choice(["random", "pct"]), "seed": rng.randrange(1 << 30)}))
        else:
            # reuse: write/discard cycles over a fixed working set must not grow the file
            ws = rng.randrange(4, 10)
            base = rng.randrange(geo["vclusters"] - ws)
            cycles = 6 if chk.tier == "quick" else 15
            for cy in range(cycles):
                order = list(range(ws))
                rng.shuffle(order)
                for c in order:
                    steps.append({"op": "write", "gb": (base + c) * bpc + rng.randrange(bpc), "n": 1})
                if rng.random() < 0.5:
                    steps.append({"op": "flush"})
                steps.append({"op": "discard", "gb": base * bpc, "n": ws * bpc})
                if rng.random() < 0.5:
                    steps.append({"op": "flush"})
            steps += [{"op": "flush"}, {"op": "sweep"}]
            img = S.image_plain(geo, "build")
            # header + reftable + refblock + l1 + l2 tables + working set + one refblock span of slack
            bound = 1 + 1 + 2 + 1 + 2 + ws + 8
            scens.append(S.mk(f"c08r-{i}", geo, [img], steps, sample_ram=True, bound_clusters=bound))
    st_ = fam_same_target(chk.tier, chk.seed, "c08s", 30 if chk.tier == "quick" else 400)
    for s_ in st_:
        s_["sample_ram"] = True
    scens += st_
    # growth (new refblocks, refcount table relocation) and the concurrent small scope, with the in-ram view sampled
    more = fam_growth(chk.tier, chk.seed, "c08g", 8 if chk.tier == "quick" else 48)
    more += fam_growth(chk.tier, chk.seed, "c08gc", 8 if chk.tier == "quick" else 48, conc=True)
    more += fam_exhaustive_par(chk.tier, "c08p", seed=chk.seed, seeds=(1, 2), variants=("plain", "special", "backing"))
    more += fam_park(chk.tier, "c08k", variants=("plain", "special"), seed=chk.seed)
    for s_ in more:
        s_["sample_ram"] = True
    scens += more
    scens += fam_regress()
    res, st = Q.run_batch(scens, chk.wd, known=chk.known_tags(), par=14)
    chk.consume(res, st, props=("C08", "C07", "PANIC"))
    for name, r in res.items():
        chk.nontrivial.add(name)
    alloc_design(chk)
    return chk.finish("model_checking",
                      "design model spec/Alloc.tla (transcription of allocate_clusters / try_allocate_from / get_free_range / tail range / "
                      "fragment retry / free hint): contract checked by TLC on every refcount pattern, hint and request of a 2x(2x4)-entry geometry "
                      "(MC_AllocSmall); its states on boundary-shaped patterns of the real 64-entry slices are set up in the real allocator and every real "
                      "outcome is judged by TLC against the contract (AllocCheck.tla; equality with the model's own choice is informational); hook H1 samples the in-ram metadata view after every scheduler step (recorded on change) and TLC evaluates Inv_C08 on it: "
                      "no host cluster referenced twice, refcount >= references, hook-allocated clusters owned by nobody else; allocation histories "
                      "driven through hook H3 (single/multi-cluster, fragmenting frees, slice and refblock boundaries, concurrent allocators and "
                      "writers): Inv_C08alloc (run aligned, contiguous, <= requested, free when the call started, given to one requester); write/"
                      "discard cycles over a fixed working set with a bound on the host file length (Inv_C08bound)",
                      BASE_ASSUME + ["the in-ram view is read through hook H1 (verif_snapshot) and overlaid on the visible file by the harness"])


def check_C09(chk):
    """qcow2 specification conformance: reads foreign images, formats valid ones"""
    rng = random.Random(chk.seed * 31 + 9)
    quick = chk.tier == "quick"
    scens = fam_regress()
    cbs = [9, 10, 12, 14, 16, 20 + chk.seed % 2] if quick else list(range(9, 22))
    ros = [0, 2, 4, 6] if quick else list(range(0, 7))
    k = 0
    # (a) independently built images, opened with default and custom parameters
    for cb in cbs:
        for ro in ros:
            for version in ((3,) if quick and (cb + ro) % 3 else (3, 2)):
                if version == 2 and ro != 4:
                    continue
                for defaults in (True, False):
                    k += 1
                    bsb = rng.choice([9, 9, 10, 12]) if cb >= 12 else rng.choice([9, min(cb, 10)])
                    if cb >= 16:
                        bsb = 12
                    vc = rng.choice([24, 40, 70]) if cb <= 12 else (12 if cb <= 15 else 5)
                    l2n = (1 << cb) // 8
                    need_l1 = -(-vc // l2n)
                    geo = dict(cb=cb, ro=ro, bsb=bsb, vclusters=vc)
                    if defaults:
                        geo["params"] = {}
                    else:
                        sb = rng.randrange(bsb, min(cb, 12) + 1)
                        geo["params"] = {"l2": [sb, rng.choice([2, 3, 8]) << sb], "rb": [sb, rng.choice([2, 4]) << sb]}
                    kinds = ("data", "zero", "zero_prealloc", "comp") if version == 3 else ("data", "comp")
                    top = S.image_shaped(rng, geo, 1, frac=rng.choice([0.3, 0.6]), kinds=kinds, version=version,
                                         l1_entries=rng.choice([None, None, max(1, need_l1 - 1)]) if need_l1 > 1 else None)
                    images = [top]
                    if k % 3 == 0:
                        images.append(S.image_shaped(rng, geo, 2, frac=0.7, kinds=("data", "zero") if version == 3 else ("data",),
                                                     vclusters=vc + rng.choice([0, -vc // 3, 3]), version=version))
                    bpc = 1 << (cb - bsb)
                    steps = [{"op": "info"}, {"op": "mapall"}, {"op": "sweep"}]
                    if k % 2 == 0:
                        c = rng.randrange(vc)
                        steps += [{"op": "write", "gb": c * bpc + rng.randrange(bpc), "n": 1}, {"op": "sweep"}, {"op": "flush"},
                                  {"op": "reopen"}, {"op": "mapall"}, {"op": "sweep"}]
                    scens.append(S.mk(f"c09b-cb{cb}-ro{ro}-v{version}-{'def' if defaults else 'cus'}", geo, images, steps))
    # (a2) version 2 overlays (72-byte header: backing file name and extensions follow at once) over v2 and v3 backing images
    for cb in (9, 12, 16) if quick else (9, 10, 12, 14, 16, 18):
        for bver in (2, 3):
            bsb = 9 if cb < 16 else 12
            vc = 24 if cb <= 12 else 6
            geo = dict(cb=cb, ro=4, bsb=bsb, vclusters=vc, params={})
            top = S.image_shaped(rng, geo, 1, frac=0.4, kinds=("data", "comp"), version=2)
            back = S.image_shaped(rng, geo, 2, frac=0.7, kinds=("data", "zero") if bver == 3 else ("data",), version=bver)
            bpc = 1 << (cb - bsb)
            steps = [{"op": "info"}, {"op": "mapall"}, {"op": "sweep"}, {"op": "write", "gb": rng.randrange(vc) * bpc, "n": 1},
                     {"op": "sweep"}, {"op": "flush"}, {"op": "reopen"}, {"op": "sweep"}]
            scens.append(S.mk(f"c09v2-cb{cb}-b{bver}", geo, [top, back], steps))
    # (b) what the library formats, over virtual sizes, cluster sizes, refcount widths, block sizes
    sizes_small = [1, 7, 64, 100]
    for cb in cbs:
        for ro in ros:
            for bsb in ([9] if quick else [9, 10, 11, 12]):
                if bsb > cb:
                    continue
                vc = rng.choice(sizes_small) if cb <= 14 else rng.choice([1, 5])
                geo = dict(cb=cb, ro=ro, bsb=bsb, vclusters=vc, params={})
                bpc = 1 << (cb - bsb)
                steps = [{"op": "info"}, {"op": "mapall"}, {"op": "write", "gb": 0, "n": 1},
                         {"op": "write", "gb": (vc - 1) * bpc, "n": bpc}, {"op": "sweep"}, {"op": "flush"}, {"op": "reopen"}, {"op": "sweep"}]
                scens.append(S.mk(f"c09f-cb{cb}-ro{ro}-bs{bsb}", geo, [S.image_plain(geo, "format")], steps))
            # big virtual sizes: structure only (the flat model gets no guest blocks)
            for big in ([1 << 20] if quick else [1 << 16, 1 << 20, 1 << 24]):
                if (big << cb) > (1 << 44):
                    continue
                geo = dict(cb=cb, ro=ro, bsb=9, vclusters=big, params={})
                scens.append(S.mk(f"c09F-cb{cb}-ro{ro}-n{big}", geo, [S.image_plain(geo, "format")], [{"op": "info"}], format_only=True))
    # (c) sizes at which the fresh image's metadata fills a whole number of refcount blocks (spec/Cli.tla
    # FormatBoundaryCases): Qcow2Header::format_qcow2 through the library
    bcases, _, _ = Q.tlc_enumerate("Cli.tla", env={"MAXMB": "260" if quick else "700", "ALLSIZES": "0"})
    for c in bcases:
        if c.get("t") == "format" and c.get("boundary") and (not quick or c["mb"] % 2 == 1):
            geo = dict(cb=c["cb"], ro=c["ro"], bsb=9, vclusters=(c["mb"] << 20) >> c["cb"], params={})
            scens.append(S.mk(f"c09B-cb{c['cb']}-ro{c['ro']}-mb{c['mb']}", geo, [S.image_plain(geo, "format")], [{"op": "info"}], format_only=True))
    scens += fam_wide(chk.tier, chk.seed, "c09w", 6 if quick else 40)
    res, st = Q.run_batch(scens, chk.wd, known=chk.known_tags(), par=14)
    chk.consume(res, st, props=("C09", "C01", "C02", "C03", "C07", "OPEN", "PANIC"))
    for name in res:
        chk.nontrivial.add(name)
    return chk.finish("model_checking",
                      "independently built images (cluster_bits 9-21 x refcount_order 0-6 x v2/v3; data, zero, preallocated zero, compressed incl. "
                      "straddling, L1 shorter than maximal, backing chains shorter/longer) opened with default and custom parameters: get_mapping() of "
                      "every guest cluster vs the spec's L2 reading (Inv_C09map), read_at sweeps vs FlatDisk, derived geometry vs spec/Geometry.tla "
                      "(Inv_C09info); images formatted by the library over (virtual size, cluster_bits, refcount_order, block size) must satisfy "
                      "WellFormed and Exact (Inv_C09fmt) and be usable",
                      BASE_ASSUME + ["inflate correctness is observed through tokens only"])


def check_C14(chk):
    """malformed or unsupported images are rejected, never mis-handled"""
    rng = random.Random(chk.seed * 31 + 14)
    quick = chk.tier == "quick"
    cases, gen, dist = Q.tlc_enumerate("GenMalformed.tla", env={"PAIRS": "0" if quick else "1"})
    if not quick:
        rng.shuffle(cases)
        singles = [c for c in cases if len(c["m"]) == 1]
        pairs = [c for c in cases if len(c["m"]) == 2][:2500]
        cases = singles + pairs
    G = S.geoms(chk.tier)
    geos = ["G1", "G2k", "G3a", "G5"] if quick else ["G1", "G2", "G2k", "G3a", "G3b", "G3c", "G6", "G4", "G5"]
    scens = []
    for gi, gname in enumerate(geos):
        geo = dict(G[gname])
        # (G1: two L1 entries, so that a header can list one too few)
        geo["vclusters"] = 70 if gname == "G1" else min(geo["vclusters"], 40)
        bpc = 1 << (geo["cb"] - geo["bsb"])
        for ci, c in enumerate(cases):
            if not quick and len(c["m"]) == 2 and (ci + gi) % len(geos):
                continue            # pairs are spread over the geometries
            images = [S.image_shaped(rng, geo, 1, frac=0.5, kinds=("data", "data", "zero", "comp"))]
            if gname == "G1":
                # nothing behind the first L2 table: the second L1 entry is empty
                images[0]["desc"]["clusters"] = [c_ for c_ in images[0]["desc"]["clusters"] if c_["g"] < 60]
            v = geo["vclusters"] * bpc
            steps = [{"op": "info"}, {"op": "mapall"}, {"op": "check"}, {"op": "sweep"},
                     {"op": "write", "gb": rng.randrange(v), "n": 1}, {"op": "write", "gb": 0, "n": min(v, 2 * bpc + 1)},
                     {"op": "write", "gb": v - 1, "n": 1},
                     {"op": "discard", "gb": 0, "n": v}, {"op": "write", "gb": rng.randrange(v), "n": 1},
                     {"op": "flush"}, {"op": "check"}, {"op": "sweep"}, {"op": "reopen"}, {"op": "sweep"}]
            nm = "+".join(f"{m[0]}.{m[1]}" for m in c["m"])
            sc = S.mk(f"c14-{gname}-{nm}", geo, images, steps, mutations=c["m"], must_refuse=bool(c["refuse"]))
            if gi % 2 == 1:
                sc["params"] = {}
            scens.append(sc)
    res, st = Q.run_batch(scens, chk.wd, known=chk.known_tags(), par=14, isolate=True)
    chk.consume(res, st, props=("C14", "CRASH"))
    # memory in proportion to the file and the requests
    for name, r in res.items():
        sm = r["summary"]
        if "peak_kib" in sm:
            bound = 65536 + 32 * (sm.get("file_kib", 0) + (sm.get("bytes_requested", 0) >> 10))
            if sm["peak_kib"] > bound:
                chk.report(r, "C14", f"{name}: peak heap {sm['peak_kib']} KiB > bound {bound} KiB", "memory")
        chk.nontrivial.add(json.dumps(r["scenario"].get("mutations")))
    chk.stats["states"] += gen
    chk.extra.update(dict(mutation_cases=len(cases), exhaustive_singles=True))
    return chk.finish("model_checking",
                      "spec/HeaderAccept.tla enumerates structured malformations (field x class; all singles, pairs on different fields in the thorough "
                      "tier) and decides which must be refused; each is applied to an independently built valid image per geometry and run in its own "
                      "process (address-space limit, alarm): open must not panic and must refuse unsupported features; if a device results, every "
                      "operation (get_mapping of all clusters, sweep, writes, discard, flush, check, reopen) must return without panic, hang, process "
                      "death, or heap use beyond 64 MiB + 32 x (file size + bytes requested)",
                      BASE_ASSUME + ["unstructured byte strings are not enumerated (outside what a TLA+ model can enumerate)"])


def check_C15(chk):
    """codec fidelity: the spec generates the vectors AND the expected results"""
    import subprocess
    vecs, gen, dist = Q.tlc_enumerate("Codec.tla")
    vp = os.path.join(chk.wd, "codec.ndjson")
    with open(vp, "w") as f:
        for v in vecs:
            f.write(json.dumps(v) + "\n")
    p = subprocess.run([Q.QV, "codec", vp], stdout=subprocess.PIPE, stderr=subprocess.PIPE, text=True, timeout=600)
    if p.returncode != 0:
        raise Q.ToolError("codec runner failed: " + p.stderr[-500:])
    summ = None
    for line in p.stdout.splitlines():
        d = json.loads(line)
        if d.get("summary"):
            summ = d
            continue
        if any("tool error" in b for b in d["bad"]):
            raise Q.ToolError(f"builder/decoder disagree: {d}")
        res = dict(scenario=dict(vector=d["vec"]), summary={})
        chk.report(res, "C15", f"vector {json.dumps(d['vec'])[:200]}: {d['bad'][:3]}", f"{d['vec']['t']}:{d['bad'][0][:60]}")
    if not summ or summ["vectors"] != len(vecs):
        raise Q.ToolError("codec runner did not process every vector")
    chk.nruns = len(vecs)
    chk.accepted = len(vecs) - summ["bad"]
    chk.stats["states"] += max(gen, len(vecs))
    kinds = {}
    for v in vecs:
        kinds[v["t"]] = kinds.get(v["t"], 0) + 1
        chk.nontrivial.add(json.dumps(v, sort_keys=True))
    chk.samples = [vecs[i] for i in range(0, len(vecs), max(1, len(vecs) // 5))][:5]
    chk.extra.update(dict(exhaustive=True, vectors_by_kind=kinds))
    return chk.finish("model_checking",
                      "spec/Codec.tla transcribes the qcow2 codecs (L2 standard/compressed descriptors by class and boundary, reserved bits, refcount "
                      "packing for every width x index x boundary value x background, header/extension/backing-name round trip, guest address split) "
                      "and TLC prints every vector of the enumerated finite domain together with the expected result; the library's public meta API "
                      "is run on each (exhaustive over the enumerated domain, symbolic 64-bit offsets instantiated by the harness)",
                      ["the bytes<->bits projection of the vectors (harness/src/codec.rs) is trusted",
                       "weaker than a proof: finite, boundary-biased domains"])


def check_C19(chk):
    """I/O backends are interchangeable and match the host-file model"""
    import subprocess
    quick = chk.tier == "quick"
    tmp = os.path.join(chk.wd, "tmp")
    # (1) exhaustive request sequences from spec/HostFile.tla
    vecs, gen, dist = Q.tlc_enumerate("HostFile.tla", cfg="HostFile.cfg", env={"DEPTH": "2"}, timeout=900)
    if not quick:
        v3, g3, d3 = Q.tlc_enumerate("HostFile.tla", cfg="HostFile.cfg", env={"DEPTH": "3"}, timeout=1800)
        rng = random.Random(chk.seed)
        rng.shuffle(v3)
        vecs += v3[:40000]
        gen += g3
    # longer random walks of the same model
    rng = random.Random(chk.seed * 77)
    for k in range(300 if quick else 3000):
        f, ops = [], []
        for j in range(rng.randrange(4, 10)):
            op = rng.choice("WWRRPS")
            off, n = rng.randrange(6), rng.randrange(4)
            if op == "W" and n > 0:
                wid = len(ops) + 1
                f = f + [0] * max(0, off + n - len(f))
                f[off:off + n] = [wid] * n
                ops.append(dict(op="W", off=off, n=n, id=wid, res=n, data=[]))
            elif op == "R":
                got = 0 if off >= len(f) else min(n, len(f) - off)
                ops.append(dict(op="R", off=off, n=n, id=0, res=got, data=f[off:off + got]))
            elif op == "P" and n > 0:
                for i in range(off, min(len(f), off + n)):
                    f[i] = 0
                ops.append(dict(op="P", off=off, n=n, id=0, res=0, data=[]))
            else:
                ops.append(dict(op="S", off=0, n=0, id=0, res=0, data=[]))
        vecs.append(dict(ops=ops, final=f))
    vp = os.path.join(chk.wd, "hostops.ndjson")
    with open(vp, "w") as fh:
        for v in vecs:
            fh.write(json.dumps(v) + "\n")
    p = subprocess.run([Q.QV, "backends", vp, tmp], stdout=subprocess.PIPE, stderr=subprocess.DEVNULL, text=True, timeout=3000)
    if p.returncode != 0:
        raise Q.ToolError("backend runner failed")
    summ = None
    for line in p.stdout.splitlines():
        d = json.loads(line)
        if d.get("summary"):
            summ = d
            continue
        res = dict(scenario=dict(hostops=d["vec"], backend=d["backend"]), summary={})
        if d["backend"] == "sim":
            raise Q.ToolError(f"SimFile disagrees with spec/HostFile.tla: {d['bad'][:2]}")
        chk.report(res, "C19", f"backend {d['backend']}: {d['bad'][:2]} on {json.dumps(d['vec'])[:160]}", f"{d['backend']}:{d['bad'][0][:50]}")
    if not summ:
        raise Q.ToolError("backend runner gave no summary")
    # (1b) the same sequences as LARGE requests: one block of the model = 1.5 MiB (requests of 1.5 - 4.5 MiB)
    big = [v for v in vecs[:4000] if any(o["op"] == "R" and o["res"] > 1 for o in v["ops"])]
    big = big[::max(1, len(big) // (60 if quick else 600))]
    bp = os.path.join(chk.wd, "hostops_big.ndjson")
    with open(bp, "w") as fh:
        for v in big:
            fh.write(json.dumps(v) + "\n")
    p = subprocess.run([Q.QV, "backends", bp, tmp], stdout=subprocess.PIPE, stderr=subprocess.PIPE, text=True, timeout=3000,
                       env=dict(os.environ, QV_UNIT=str(3072 * 512)))
    if p.returncode != 0:
        # a panic of a backend under test is data
        msg = [l for l in p.stderr.splitlines() if "panicked" in l or "assertion" in l][:2]
        if msg:
            chk.report(dict(scenario=dict(hostops_big=big[0], unit=3072 * 512), summary={}), "C19",
                       f"a backend panicked on large requests: {msg}", "bigreq:panic")
        else:
            raise Q.ToolError("backend runner failed on large requests")
    for line in p.stdout.splitlines():
        d = json.loads(line)
        if d.get("summary"):
            continue
        if d["backend"] == "sim":
            raise Q.ToolError(f"SimFile disagrees with spec/HostFile.tla on large requests: {d['bad'][:2]}")
        chk.report(dict(scenario=dict(hostops_big=d["vec"], backend=d["backend"], unit=3072 * 512), summary={}), "C19",
                   f"backend {d['backend']} (1.5 MiB blocks): {d['bad'][:2]} on {json.dumps(d['vec'])[:160]}", f"big:{d['backend']}:{d['bad'][0][:50]}")
    chk.extra["large_request_vectors"] = len(big)
    # (2) guest-level histories on every backend
    scens = []
    for s_ in fam_seq(chk.tier, chk.seed, "c19g", 12 if quick else 120, 14, sweep_every=0, shaped=0.6,
                      geoms=["G1", "G2", "G2k", "G3a", "G5", "G4"]):
        s_["steps"] = [st for st in s_["steps"] if st["op"] in ("write", "discard", "flush", "fsync", "shrink")]
        scens.append(s_)
    gp = os.path.join(chk.wd, "guest.ndjson")
    with open(gp, "w") as fh:
        for s_ in scens:
            fh.write(json.dumps(s_) + "\n")
    p = subprocess.run([Q.QV, "guest", gp, tmp], stdout=subprocess.PIPE, stderr=subprocess.DEVNULL, text=True, timeout=3000)
    if p.returncode != 0:
        raise Q.ToolError("guest history runner failed")
    gs = None
    byname = {s_["name"]: s_ for s_ in scens}
    for line in p.stdout.splitlines():
        d = json.loads(line)
        if d.get("summary"):
            gs = d
            continue
        chk.report(dict(scenario=byname[d["scenario"]], summary={}), "C19", f"{d['scenario']}: {d['bad'][:2]}", "guest:" + d["bad"][0][:50])
    chk.nruns = len(vecs) + len(scens)
    chk.accepted = chk.nruns - summ["bad"] - (gs or {}).get("bad", 0)
    chk.stats["states"] += gen
    for v in vecs:
        chk.nontrivial.add(json.dumps(v["ops"]))
    chk.samples = vecs[:2] + [dict(name=scens[0]["name"], steps=scens[0]["steps"][:8])]
    chk.extra.update(dict(backends=summ["backends"], guest_histories=len(scens), not_exercised=(gs or {}).get("not_exercised", {}),
                          exhaustive_depth=2 if quick else 3))
    return chk.finish("model_checking",
                      "spec/HostFile.tla (the reference host-file model) enumerates every request sequence up to depth 2 (thorough: a 40000-sample of "
                      "depth 3) over blocks 0-5 x lengths 0-3 (reads/writes/punches at, across and beyond EOF, zero length, fsync) plus longer random "
                      "walks of the same model, each with the expected result of every request and the final file; every sequence is executed on "
                      "SimFile, Qcow2IoTokio, Qcow2IoSync (buffered and O_DIRECT) and Qcow2IoUring on real files and compared; then seeded guest "
                      "histories are executed on each backend and the final guest content compared with the SimFile run",
                      ["real-kernel crash behaviour is not compared", "direct I/O is exercised only if the sandbox file system accepts O_DIRECT"])


def check_C20(chk):
    """CLI: convert round-trips, format is valid, check's verdict is right"""
    import subprocess
    quick = chk.tier == "quick"
    cli = Q.build_cli()
    cases, gen, dist = Q.tlc_enumerate("Cli.tla", env={"MAXMB": "260", "ALLSIZES": "0"} if quick else {"MAXMB": "320", "ALLSIZES": "1"})
    seen_fmt = set()
    rng = random.Random(chk.seed * 31 + 20)
    tmp = os.path.join(chk.wd, "tmp")
    os.makedirs(tmp, exist_ok=True)
    BS, CS, CH = 512, 65536, 8 << 20
    sizes = {"zero": 0, "one": 1, "block_minus_1": BS - 1, "block": BS, "block_plus_1": BS + 1, "sub_cluster": 4096 * 3,
             "cluster_minus_1": CS - 1, "cluster": CS, "cluster_plus_1": CS + 1, "clusters_odd": 3 * CS + 1000 * rng.randrange(1, 60) + 7,
             "chunk": CH, "chunk_plus_block": CH + BS, "multi_chunk_odd": 2 * CH + 12345}
    scens = []
    nrun = 0

    def run(args, timeout=30):
        t_ = time.time()
        try:
            p = subprocess.run([cli] + args, stdout=subprocess.PIPE, stderr=subprocess.PIPE, timeout=timeout)
            if time.time() - t_ > 5:
                Q.log(f"  slow CLI run ({time.time()-t_:.0f}s): {args[:6]}")
            return p.returncode, False, p.stderr.decode(errors="replace")[-300:]
        except subprocess.TimeoutExpired:
            Q.log(f"  CLI timeout: {args[:6]}")
            return None, True, ""

    for c in cases:
        if c["t"] == "convert":
            if quick and c["content"] in ("random", "sparse") and c["size"] in ("chunk", "multi_chunk_odd", "chunk_plus_block") and rng.random() < 0.5:
                continue
            n = sizes[c["size"]]
            if c["content"] == "random":
                data = rng.randbytes(n)
            elif c["content"] == "zeros":
                data = bytes(n)
            elif c["content"] == "sparse":
                data = bytearray(n)
                for k in range(0, n, 40000):
                    data[k:k + 7] = b"\x01payload"[:min(7, n - k)]
                data = bytes(data)
            else:
                data = (b"QVSTAMP!" * (n // 8 + 1))[:n]
            raw, q, back = (os.path.join(tmp, x) for x in ("in.raw", "img.qcow2", "out.raw"))
            for f in (q, back):
                if os.path.exists(f):
                    os.remove(f)
            open(raw, "wb").write(data)
            nrun += 1
            why = None
            rc, to, err = run(["convert", "-f", "raw", "-O", "qcow2", "-o", q, raw])
            if to:
                why = "raw->qcow2 did not terminate"
            elif rc != c["exit"]:
                why = f"raw->qcow2 exit {rc}: {err[-160:]}"
            else:
                rc, to, err = run(["convert", "-f", "qcow2", "-O", "raw", "-o", back, q])
                if to:
                    why = "qcow2->raw did not terminate"
                elif rc != 0:
                    why = f"qcow2->raw exit {rc}: {err[-160:]}"
                else:
                    out = open(back, "rb").read()
                    pad = (-n) % c["padded_to"]
                    # an empty input may come back empty or as one cluster of zeros
                    if out != data + bytes(pad) and not (n == 0 and out == bytes(c["padded_to"])):
                        why = f"round trip differs: in {n} bytes, out {len(out)} bytes, first diff at " \
                              f"{next((i for i in range(min(len(out), n)) if out[i] != data[i]), -1)}"
            chk.nontrivial.add(json.dumps([c["size"], c["content"]]))
            if why:
                chk.report(dict(scenario=dict(cli=c, size=n), summary={}), "C20", f"convert {c['size']}/{c['content']} ({n} bytes): {why}",
                           f"convert:{c['size']}:{why[:40]}")
        elif c["t"] == "format":
            if (c["mb"], c["cb"], c["ro"]) in seen_fmt:
                continue
            seen_fmt.add((c["mb"], c["cb"], c["ro"]))
            img = os.path.join(tmp, f"fmt-{c['mb']}-{c['cb']}-{c['ro']}.qcow2")
            if os.path.exists(img):
                os.remove(img)
            nrun += 1
            rc, to, err = run(["format", "-s", str(c["mb"]), "-c", str(c["cb"]), "-r", str(c["ro"]), img])
            chk.nontrivial.add(json.dumps([c["mb"], c["cb"], c["ro"]]))
            if to or rc != 0:
                chk.report(dict(scenario=dict(cli=c), summary={}), "C20", f"format {c}: exit {rc} timeout {to} {err[-160:]}", f"format:exit:{c['cb']}:{c['ro']}")
                continue
            vs = c["mb"] << 20
            vcl = vs >> c["cb"]
            geo = dict(cb=c["cb"], ro=c["ro"], bsb=9 if c["cb"] < 16 else 12, vclusters=vcl, params={})
            small = vcl <= 2048 and (vs >> geo["bsb"]) <= 4096
            steps = [{"op": "info"}] + ([{"op": "mapall"}, {"op": "write", "gb": 0, "n": 1}, {"op": "sweep"}, {"op": "flush"}, {"op": "check"}] if small else [])
            scens.append(S.mk(f"c20f-{c['mb']}-{c['cb']}-{c['ro']}", geo,
                              [{"kind": "file", "path": img, "cb": c["cb"], "ro": c["ro"], "vsize": vs}], steps, format_only=not small))
        else:
            geo = dict(cb=rng.choice([9, 12, 16]), ro=4, bsb=9, vclusters=24, params={})
            if geo["cb"] == 16:
                geo["bsb"] = 12
            if c["shape"] == "plain":
                # an L1 table that fills its cluster exactly (64 entries of 512-byte clusters), the leaked
                # clusters directly behind it: where rounding the table size up is easy to get wrong
                geo = dict(cb=9, ro=4, bsb=9, vclusters=4096, params={})
            kinds = {"plain": (), "data": ("data",), "zero_prealloc": ("zero_prealloc", "data"), "compressed": ("comp", "data")}[c["shape"]]
            im = S.image_shaped(rng, geo, 1, frac=0.5 if kinds else 0.0, kinds=kinds or ("data",))
            im["desc"]["leaks"] = c["leaks"]
            if c["shape"] == "plain":
                im["desc"]["shuffle"] = 0          # placement in order: the leaks follow the L1 table
                im["desc"]["holes"] = 0
            # Qcow2Dev::check() on the same image (flush first: file == device state)
            sc = S.mk(f"c20c-{c['shape']}-{c['leaks']}", geo, [im], [{"op": "flush"}, {"op": "check"}])
            sc["expect_builder_leaks"] = c["leaks"]
            scens.append(sc)
    # CLI check on materialised images: produced through the harness' builder dump
    res, st = Q.run_batch(scens, chk.wd, known=chk.known_tags(), par=8)
    # builder images with injected leaks are "invalid" for InitialOK (leaks) - see spec: leaks are allowed there
    chk.consume(res, st, props=("C20", "C09", "PANIC"))
    chk.stats["states"] += gen
    chk.nruns += nrun
    chk.accepted += nrun
    chk.extra.update(dict(cli_cases=len(cases), exhaustive=True))
    return chk.finish("exploration",
                      "spec/Cli.tla enumerates the class product (13 raw size classes x 4 content classes for convert; virtual size x cluster_bits x "
                      "refcount_order for format; leak count x image shape for check); every class is instantiated, the freshly built rqcow2 binary "
                      "is run under a timeout: convert raw->qcow2->raw must exit 0 and reproduce the input zero-padded to the cluster size; format "
                      "output is decoded and judged by Inv_C09fmt (WellFormed, Exact) in TLC; Qcow2Dev::check() verdict vs Leaked(image) by Inv_C20",
                      ["representatives per class are sampled, the class product is exhaustive"])


CHECKS = {"C20": check_C20, "C19": check_C19, "C15": check_C15, "C14": check_C14, "C09": check_C09, "C08": check_C08, "C10": check_C10, "C11": check_C11, "C12": check_C12, "C17": check_C17, "C07": check_C07, "C18": check_C18, "C13": check_C13, "C06": check_C06, "C04": check_C04, "C05": check_C05, "C01": check_C01, "C02": check_C02, "C03": check_C03, "C16": check_C16}


def main():
    ap = argparse.ArgumentParser()
    ap.add_argument("prop")
    ap.add_argument("--tier", default=os.environ.get("VERIF_TIER", "quick"))
    ap.add_argument("--seed", type=int, default=int(os.environ.get("VERIF_SEED", "1")))
    ap.add_argument("--replay")
    a = ap.parse_args()
    if a.tier not in ("quick", "thorough"):
        a.tier = "quick"
    try:
        Q.build_harness()
        chk = Check(a.prop, a.tier, a.seed)
        chk.wd = Q.workdir(a.prop)
        if not a.replay:
            import shutil
            shutil.rmtree(os.path.join(Q.VERIF, "replays", a.prop), ignore_errors=True)
        if a.replay:
            body = json.load(open(a.replay))
            if "expected" in body["scenario"] and "rc_pattern" in body["scenario"]:
                run_alloc_vectors(chk, [body["scenario"]["expected"]])
                for l in sorted(set(chk.viol_lines)):
                    print(l)
                sys.exit(1 if chk.viol_lines else 0)
            res, st = Q.run_batch([body["scenario"]], chk.wd, known=chk.known_tags(), par=1,
                                  mode="crash" if a.prop in ("C04", "C05", "C12") else "")
            chk.consume(res, st, props=(a.prop,))
            for l in chk.known_lines + sorted(set(chk.viol_lines)):
                print(l)
            sys.exit(1 if chk.viol_lines else 0)
        if a.prop not in CHECKS:
            Q.log(f"no check for {a.prop}")
            sys.exit(2)
        rc = CHECKS[a.prop](chk)
        Q.log(f"{a.prop}: runs={chk.nruns} accepted={chk.accepted} states={chk.stats['states']} "
              f"violations={len(set(chk.viol_lines))} known={len(chk.known_lines)} wall={time.time()-chk.t0:.0f}s")
        sys.exit(rc)
    except Q.ToolError as e:
        Q.log(f"TOOL ERROR: {e}")
        sys.exit(2)
