"""Per-property checks: scenario families, what is decided by which part of
the specification, verdict + evidence."""
import argparse
import zlib
import json
import os
import random
import sys
import time

import qvlib as Q
import scen_gen as S


# --------------------------------------------------------------------------
# scenario families

def fam_seq(tier, seed, tag, nruns, nops, shaped=0.5, weights=None, geoms=None, sweep_every=4):
    """sequential histories over the geometry families and image shapes"""
    rng = random.Random(seed * 7919 + zlib.crc32(tag.encode()) % 1000)
    G = S.geoms(tier)
    names = geoms or list(G.keys())
    out = []
    for i in range(nruns):
        gname = names[i % len(names)]
        geo = G[gname]
        r = rng.random()
        if r < shaped:
            images = [S.image_shaped(rng, geo, 1, frac=rng.choice([0.15, 0.4]),
                                     kinds=("data", "zero", "zero_prealloc"))]
        elif r < shaped + 0.2:
            images = [S.image_plain(geo, "format")]
        else:
            images = [S.image_plain(geo, "build", shuffle=rng.randrange(1 << 20), holes=rng.choice([0, 2]))]
        steps = S.seq_history(rng, geo, nops, sweep_every=sweep_every, weights=weights,
                              reopen_params=S.alt_params(geo))
        out.append(S.mk(f"{tag}-{gname}-{i}", geo, images, steps))
    return out


def fam_backing(tier, seed, tag, nruns, nops, comp=True):
    """images with backing chains and compressed clusters (COW sources)"""
    rng = random.Random(seed * 104729 + zlib.crc32(tag.encode()) % 1000)
    G = S.geoms(tier)
    names = [n for n in G if n not in ("G5",)]
    out = []
    for i in range(nruns):
        gname = names[i % len(names)]
        geo = G[gname]
        kinds = ("data", "zero", "zero_prealloc", "comp") if comp else ("data", "zero")
        top = S.image_shaped(rng, geo, 1, frac=rng.choice([0.1, 0.3]), kinds=kinds)
        images = [top]
        depth = rng.choice([0, 1, 1, 2])
        for d in range(depth):
            # lower layers: possibly shorter / longer than the top image
            vc = geo["vclusters"] + rng.choice([0, 0, -geo["vclusters"] // 3, 8])
            images.append(S.image_shaped(rng, geo, 2 + d, frac=0.5, kinds=("data", "zero"), vclusters=vc))
        steps = S.seq_history(rng, geo, nops, sweep_every=3,
                              weights=dict(write=45, read=15, discard=10, flush=10, reopen=5, shrink=3),
                              reopen_params=S.alt_params(geo))
        out.append(S.mk(f"{tag}-{gname}-{i}", geo, images, steps))
    return out


def fam_conc(tier, seed, tag, nruns, geoms=("G1", "G2", "G2k", "G4"), policies=("random", "pct"), groups=2,
             maxops=4, with_flush=True, backing=False):
    """concurrent groups: sets of 2..maxops calls that overlap in time,
    scheduled by seeded random / PCT policies at every suspension point"""
    rng = random.Random(seed * 15485863 + zlib.crc32(tag.encode()) % 1000)
    G = S.geoms(tier)
    out = []
    for i in range(nruns):
        gname = geoms[i % len(geoms)]
        geo = G[gname]
        bpc = 1 << (geo["cb"] - geo["bsb"])
        if backing:
            images = [S.image_shaped(rng, geo, 1, frac=0.2, kinds=("data", "zero", "comp")),
                      S.image_shaped(rng, geo, 2, frac=0.6, kinds=("data", "zero"))]
        else:
            images = [S.image_shaped(rng, geo, 1, frac=rng.choice([0.0, 0.2]), kinds=("data", "zero", "zero_prealloc"))]
        steps = []
        # prelude
        for _ in range(rng.randrange(0, 4)):
            gb, n = S.rand_range(rng, geo)
            steps.append({"op": "write", "gb": gb, "n": n})
        if rng.random() < 0.6:
            steps.append({"op": "flush"})
        if rng.random() < 0.3:
            steps.append({"op": "shrink"})
        for g in range(groups):
            ops = []
            nops = rng.randrange(2, maxops + 1)
            # a focus cluster that several calls hit
            fc = rng.randrange(geo["vclusters"])
            for k in range(nops):
                r = rng.random()
                if r < 0.5:
                    if rng.random() < 0.6:
                        # sub-range of / around the focus cluster
                        gb = fc * bpc + rng.randrange(bpc)
                        n = rng.randrange(1, bpc + 2)
                    else:
                        gb, n = S.rand_range(rng, geo)
                    n = max(1, min(n, geo["vclusters"] * bpc - gb))
                    ops.append({"op": "write", "gb": gb, "n": n})
                elif r < 0.7:
                    gb = fc * bpc
                    n = min(bpc * rng.randrange(1, 3), geo["vclusters"] * bpc - gb)
                    if rng.random() < 0.5:
                        gb, n = S.rand_range(rng, geo)
                    ops.append({"op": "read", "gb": gb, "n": n})
                elif r < 0.8:
                    gb = max(0, fc - rng.randrange(0, 2)) * bpc
                    n = min(bpc * rng.randrange(1, 3), geo["vclusters"] * bpc - gb)
                    ops.append({"op": "discard", "gb": gb, "n": n})
                elif r < 0.93 and with_flush:
                    ops.append({"op": "flush"})
                elif with_flush:
                    ops.append({"op": "shrink"})
                else:
                    gb, n = S.rand_range(rng, geo)
                    ops.append({"op": "read", "gb": gb, "n": n})
            steps.append({"op": "par", "ops": ops})
            steps.append({"op": "sweep"})
        steps += [{"op": "flush"}, {"op": "sweep"}, {"op": "reopen"}, {"op": "sweep"}]
        pol = policies[i % len(policies)]
        out.append(S.mk(f"{tag}-{gname}-{i}", geo, images, steps,
                        sched={"policy": pol, "seed": rng.randrange(1 << 30)}))
    return out


def fam_regress():
    """the failing histories of every finding fixed so far (regress/*.json):
    a fixed entry suppresses nothing, so these are re-checked on every run"""
    import glob
    out = []
    for f in sorted(glob.glob(os.path.join(Q.VERIF, "regress", "*.json"))):
        sc = json.load(open(f))["scenario"]
        sc = dict(sc, name="regress-" + os.path.basename(f)[:-5])
        out.append(sc)
    return out


# --------------------------------------------------------------------------
# verdicts

def classify_unaccepted(res):
    """why was a run not accepted: returns (property, description)"""
    ev = res.get("stuck_event")
    if ev is None:
        return ("TOOL", "no REACHED record")
    if ev["e"] == "Ret":
        par = any(st.get("op") == "par" for st in res["scenario"]["steps"])
        return ("C06" if par else "C01", f"no admissible value explains Ret id={ev['id']} toks={ev.get('toks')}")
    return ("TOOL", f"trace stops being explainable at event {ev['e']}")


def sig_of(prop, res, v):
    """signature of a violation for the known-findings file"""
    d = v["detail"]
    if v["prop"] == "C04" and isinstance(d, list) and d and d[0] == "under":
        # classify who references each under-counted cluster in the crash image
        cls = set()
        for c, stored, refs in d[1]:
            for tag, idx, flat, imgk in refs:
                if tag == 5 and flat == "dd" and imgk in ("d", "zp"):
                    cls.add("discarded")          # L2 still maps a discarded cluster
                elif tag == 5 and flat in ("d", "x") and imgk == "zp":
                    cls.add("prealloc-replaced")  # old zero-prealloc entry still on disk
                else:
                    cls.add(f"other:{tag}:{flat}:{imgk}")
        return "under:" + ",".join(sorted(cls))
    if v["prop"] == "C04" and isinstance(d, list) and d and d[0] == "tables":
        return "tables"
    if prop in ("C07",) and isinstance(d, list) and d and d[0] == "Panic":
        return f"panic:{d[1]}"
    return json.dumps(d, sort_keys=True)[:200]


class Check:
    def __init__(self, prop, tier, seed):
        self.prop, self.tier, self.seed = prop, tier, seed
        self.t0 = time.time()
        self.viol_lines = []
        self.known_lines = []
        self.samples = []
        self.stats = dict(states=0, distinct=0, crash_images=0, synced_crash_images=0)
        self.nruns = 0
        self.accepted = 0
        self.nontrivial = set()
        self.events = 0
        self.known = [k for k in Q.load_known() if k["property"] == prop and k.get("status") == "known"]
        self.extra = {}

    def known_tags(self):
        return ",".join(sorted({k["tag"] for k in Q.load_known() if k.get("status") == "known" and k.get("tag")}))

    def match_known(self, sig):
        for k in self.known:
            if k["signature"] in sig:
                return k
        return None

    def report(self, res, prop, why, sig):
        k = self.match_known(sig)
        if k is not None:
            line = f"KNOWN-FINDING: property={prop} {k['description']}"
            if line not in self.known_lines:
                self.known_lines.append(line)
            return
        path = Q.save_replay(prop, res["scenario"], why)
        self.viol_lines.append(f"VIOLATION property={prop} replay={path}")
        Q.log(f"  violation: {why}")

    def consume(self, results, stats, props, unaccepted_props=("C01", "C06")):
        """fold a batch's results; `props` = VIOL tags that belong to this check"""
        for k in self.stats:
            self.stats[k] += stats.get(k, 0)
        for name, res in sorted(results.items()):
            self.nruns += 1
            self.events += res["summary"].get("events", 0)
            sc = res["scenario"]
            if res["accepted"]:
                self.accepted += 1
            else:
                p, why = classify_unaccepted(res)
                if p == "TOOL":
                    raise Q.ToolError(f"{name}: {why} (line {res.get('reached')})")
                if p in unaccepted_props and p == self.prop:
                    self.report(res, p, f"{name}: {why}", "unexplained-read")
            for v in Q.dedup_viols(res["viols"]):
                if v["prop"] in props:
                    self.report(res, self.prop, f"{name} line {v['line']}: {v['prop']} {json.dumps(v['detail'])[:300]}",
                                sig_of(self.prop, res, v))
            if len(self.samples) < 3:
                self.samples.append(dict(name=name, steps=sc["steps"][:12], images=[i.get("kind") for i in sc["images"]],
                                         accepted=res["accepted"], events=res["summary"].get("events")))

    def finish(self, level, rule, assumptions, extra=None):
        for l in self.known_lines:
            print(l)
        for l in sorted(set(self.viol_lines)):
            print(l)
        cov = dict(states=max(1, self.stats["states"]), transitions=max(1, self.stats["states"]),
                   distinct_states=self.stats["distinct"],
                   traces_validated_against_impl=self.nruns, traces_accepted=self.accepted,
                   samples=self.samples or [{}], evaluations=self.nruns,
                   distinct_nontrivial=len(self.nontrivial), rule=rule,
                   trace_events=self.events, crash_images=self.stats["crash_images"],
                   synced_crash_images=self.stats["synced_crash_images"],
                   known_findings=len(self.known_lines))
        cov.update(self.extra)
        if extra:
            cov.update(extra)
        Q.write_evidence(self.prop, self.tier, self.seed, level, cov, assumptions,
                         time.time() - self.t0, len(set(self.viol_lines)))
        return 1 if self.viol_lines else 0


BASE_ASSUME = [
    "the bytes->abstract-block projection (harness/src/decode.rs) is trusted",
    "SimFile implements spec HostFile semantics (bytes captured at issue, effect at completion, short reads at EOF)",
    "single-threaded executor: tasks interleave only at awaits",
]


def nontrivial_seq(chk, results):
    """a sequential run is non-trivial if it was accepted through at least
    one write, one read that returned non-zero data and one flush"""
    for name, res in results.items():
        st = res["scenario"]["steps"]
        ops = {s["op"] for s in st}
        if {"write", "flush"} <= ops and res["summary"].get("reqs", 0) > 10:
            chk.nontrivial.add(json.dumps(st, sort_keys=True))


def check_C01(chk):
    n = 48 if chk.tier == "quick" else 600
    scens = fam_seq(chk.tier, chk.seed, "c01", n, 24 if chk.tier == "quick" else 40)
    scens += fam_backing(chk.tier, chk.seed, "c01b", n // 2, 16)
    scens += fam_regress()
    res, st = Q.run_batch(scens, chk.wd, known=chk.known_tags(), par=12)
    chk.consume(res, st, props=("C01",))
    nontrivial_seq(chk, res)
    return chk.finish("model_checking",
                      "seeded sequential histories x geometries G1-G6 x image shapes (plain/format/zero/prealloc/compressed/backing chains); "
                      "non-trivial = distinct history containing a write and a flush with >10 backend requests, accepted by TLC against FlatDisk",
                      BASE_ASSUME)


def check_C02(chk):
    n = 48 if chk.tier == "quick" else 600
    w = dict(write=40, read=10, discard=10, flush=14, shrink=8, reopen=10)
    scens = fam_seq(chk.tier, chk.seed, "c02", n, 28 if chk.tier == "quick" else 50, weights=w, sweep_every=0)
    scens += fam_backing(chk.tier, chk.seed, "c02b", n // 2, 18)
    scens += fam_regress()
    res, st = Q.run_batch(scens, chk.wd, known=chk.known_tags(), par=12)
    chk.consume(res, st, props=("C02",))
    nontrivial_seq(chk, res)
    return chk.finish("model_checking",
                      "histories with flush_meta/shrink/reopen (same and different slice+cache parameters); Inv_C02 evaluated by the "
                      "spec's own reader on the abstract file after every successful flush_meta, reopen sweeps must match it",
                      BASE_ASSUME)


def check_C03(chk):
    n = 48 if chk.tier == "quick" else 600
    scens = fam_seq(chk.tier, chk.seed, "c03", n, 28 if chk.tier == "quick" else 50, sweep_every=0,
                    weights=dict(write=45, discard=18, flush=12, shrink=5, reopen=5, read=5))
    scens += fam_backing(chk.tier, chk.seed, "c03b", n // 2, 18)
    scens += fam_regress()
    res, st = Q.run_batch(scens, chk.wd, known=chk.known_tags(), par=12)
    chk.consume(res, st, props=("C03",))
    nontrivial_seq(chk, res)
    return chk.finish("model_checking",
                      "Inv_C03 (WellFormed and Exact from spec/Qcow2Format.tla) evaluated after every successful flush_meta of seeded histories "
                      "over all refcount widths incl. sub-byte, several slice sizes, built and library-formatted images",
                      BASE_ASSUME)


def check_C16(chk):
    n = 36 if chk.tier == "quick" else 300
    scens = fam_seq(chk.tier, chk.seed, "c16", n, 20, sweep_every=5)
    scens += fam_backing(chk.tier, chk.seed, "c16b", n // 2, 16)
    scens += fam_regress()
    res, st = Q.run_batch(scens, chk.wd, known=chk.known_tags(), par=12)
    chk.consume(res, st, props=("C16",))
    nontrivial_seq(chk, res)
    return chk.finish("model_checking",
                      "Inv_C16 on every Req event (offset, length, buffer address modulo block size) of seeded histories with block sizes 512-4096",
                      BASE_ASSUME)


def check_C04(chk):
    n = 30 if chk.tier == "quick" else 400
    w = dict(write=45, read=5, discard=12, flush=14, fsync=4, shrink=5, reopen=3)
    scens = fam_seq(chk.tier, chk.seed, "c04", n, 14 if chk.tier == "quick" else 24, weights=w, sweep_every=0,
                    geoms=["G1", "G2", "G2k", "G4", "G3a", "G6"])
    scens += fam_backing(chk.tier, chk.seed, "c04b", n // 3, 10)
    scens += fam_regress()
    res, st = Q.run_batch(scens, chk.wd, mode="crash", known=chk.known_tags(), par=14)
    chk.consume(res, st, props=("C04",))
    nontrivial_seq(chk, res)
    return chk.finish("model_checking",
                      "crash branching in TLC at the end of every fsync epoch and at the end of every recorded run: every subset (per block) of the "
                      "metadata-relevant un-synced requests (<=10 pairs exhaustive, else subsets of size <=2 and >=n-2), data-only blocks all-kept and all-lost; "
                      "Inv_C04 = Safe(image) on every distinct crash image",
                      BASE_ASSUME + ["crash model: a request is durable once an fsync issued after its completion has completed; "
                                     "per-block independence of un-synced requests; crash images within one fsync epoch are monotone, so only epoch ends are expanded"])


def check_C05(chk):
    n = 30 if chk.tier == "quick" else 400
    w = dict(write=40, read=3, discard=12, flush=18, fsync=16, shrink=4, reopen=2)
    scens = fam_seq(chk.tier, chk.seed, "c05", n, 16 if chk.tier == "quick" else 26, weights=w, sweep_every=0,
                    geoms=["G1", "G2", "G2k", "G4", "G3a", "G6"])
    scens += fam_backing(chk.tier, chk.seed, "c05b", n // 3, 10)
    scens += fam_regress()
    res, st = Q.run_batch(scens, chk.wd, mode="crash", known=chk.known_tags(), par=14)
    chk.consume(res, st, props=("C05",))
    nontrivial_seq(chk, res)
    return chk.finish("model_checking",
                      "as C04, with Inv_C05 on every distinct crash image: the spec's reader must return for every guest block the value at the last "
                      "sync point (flush_meta Ok then fsync_range Ok) or a value of an operation issued afterwards",
                      BASE_ASSUME)


def check_C06(chk):
    n = 120 if chk.tier == "quick" else 3000
    scens = fam_conc(chk.tier, chk.seed, "c06", n)
    scens += fam_conc(chk.tier, chk.seed, "c06b", n // 4, backing=True)
    res, st = Q.run_batch(scens, chk.wd, known=chk.known_tags(), par=14)
    chk.consume(res, st, props=("C06", "C01", "C02"))
    for name, r in res.items():
        if r["summary"].get("max_conc", 0) >= 2:
            chk.nontrivial.add(json.dumps(r["summary"].get("sched")))
    chk.extra["schedules"] = len(chk.nontrivial)
    return chk.finish("model_checking",
                      "groups of 2-4 overlapping calls (same-cluster sub-ranges, overlapping, disjoint, flush/shrink/discard) under seeded random and "
                      "PCT schedules at every suspension point; TLC searches the placements of per-block linearization points (normalised to sit "
                      "immediately before a Ret); non-trivial = distinct schedule in which >= 2 calls were in flight together",
                      BASE_ASSUME)


CHECKS = {"C06": check_C06, "C04": check_C04, "C05": check_C05, "C01": check_C01, "C02": check_C02, "C03": check_C03, "C16": check_C16}


def main():
    ap = argparse.ArgumentParser()
    ap.add_argument("prop")
    ap.add_argument("--tier", default=os.environ.get("VERIF_TIER", "quick"))
    ap.add_argument("--seed", type=int, default=int(os.environ.get("VERIF_SEED", "1")))
    ap.add_argument("--replay")
    a = ap.parse_args()
    if a.tier not in ("quick", "thorough"):
        a.tier = "quick"
    try:
        Q.build_harness()
        chk = Check(a.prop, a.tier, a.seed)
        chk.wd = Q.workdir(a.prop)
        if not a.replay:
            import shutil
            shutil.rmtree(os.path.join(Q.VERIF, "replays", a.prop), ignore_errors=True)
        if a.replay:
            body = json.load(open(a.replay))
            res, st = Q.run_batch([body["scenario"]], chk.wd, known=chk.known_tags(), par=1,
                                  mode="crash" if a.prop in ("C04", "C05", "C12") else "")
            chk.consume(res, st, props=(a.prop,))
            for l in chk.known_lines + sorted(set(chk.viol_lines)):
                print(l)
            sys.exit(1 if chk.viol_lines else 0)
        if a.prop not in CHECKS:
            Q.log(f"no check for {a.prop}")
            sys.exit(2)
        rc = CHECKS[a.prop](chk)
        Q.log(f"{a.prop}: runs={chk.nruns} accepted={chk.accepted} states={chk.stats['states']} "
              f"violations={len(set(chk.viol_lines))} known={len(chk.known_lines)} wall={time.time()-chk.t0:.0f}s")
        sys.exit(rc)
    except Q.ToolError as e:
        Q.log(f"TOOL ERROR: {e}")
        sys.exit(2)
