"""Shared driver machinery: build the harness against /repo's working tree,
run scenarios on the real code, validate the traces against the TLA+
envelope specification with TLC, collect verdicts and write evidence."""
import hashlib
import json
import os
import re
import shutil
import subprocess
import sys
import time
from concurrent.futures import ThreadPoolExecutor

VERIF = os.path.dirname(os.path.dirname(os.path.abspath(__file__)))
HARNESS = os.path.join(VERIF, "harness")
SPEC = os.path.join(VERIF, "spec")
QV = os.path.join(HARNESS, "target", "debug", "qv")
JAVA_OPTS = "-Xss1g -Xmx3g -XX:+UseParallelGC -Dtlc2.tool.queue.IStateQueue=StateDeque"


class ToolError(Exception):
    pass


def log(*a):
    print(*a, file=sys.stderr, flush=True)


def build_harness():
    """(re)build the harness; /repo is a path dependency so its current
    working tree is what gets compiled (hooks on via --cfg qcow2_rs_verif)"""
    t0 = time.time()
    lock = os.path.join(HARNESS, "Cargo.lock")
    if not os.path.exists(lock):
        shutil.copy("/repo/Cargo.lock", lock)
    env = dict(os.environ, CARGO_NET_OFFLINE="true")
    p = subprocess.run(["cargo", "build", "--offline", "--quiet"], cwd=HARNESS, env=env,
                       stdout=subprocess.PIPE, stderr=subprocess.STDOUT, text=True)
    if p.returncode != 0:
        log(p.stdout[-4000:])
        raise ToolError("harness build failed")
    return time.time() - t0


RQCOW2 = os.path.join(HARNESS, "target", "repo", "debug", "rqcow2")


def build_cli():
    """build /repo's rqcow2 binary from the current working tree (no hooks)"""
    env = dict(os.environ, CARGO_NET_OFFLINE="true")
    env.pop("RUSTFLAGS", None)
    p = subprocess.run(["cargo", "build", "--offline", "--quiet", "--bin", "rqcow2", "--manifest-path", "/repo/Cargo.toml",
                        "--target-dir", os.path.join(HARNESS, "target", "repo")], env=env, cwd="/repo",
                       stdout=subprocess.PIPE, stderr=subprocess.STDOUT, text=True)
    if p.returncode != 0:
        log(p.stdout[-3000:])
        raise ToolError("rqcow2 build failed")
    return RQCOW2


def workdir(prop):
    d = os.path.join(VERIF, "work", prop)
    shutil.rmtree(d, ignore_errors=True)
    os.makedirs(d, exist_ok=True)
    return d


def run_harness(scens, wd, tag, isolate=False):
    """run scenarios -> (trace path, defs path, summaries)"""
    sp = os.path.join(wd, f"{tag}.scen.ndjson")
    tp = os.path.join(wd, f"{tag}.trace.ndjson")
    with open(sp, "w") as f:
        for s in scens:
            f.write(json.dumps(s) + "\n")
    env = dict(os.environ)
    if isolate:
        env["QV_ISOLATE"] = "1"
    try:
        p = subprocess.run([QV, "run", sp, tp], stdout=subprocess.PIPE, stderr=subprocess.PIPE,
                           text=True, timeout=1800 if isolate else 600, env=env)
    except subprocess.TimeoutExpired:
        if isolate:
            raise ToolError(f"harness timeout on {tag}")
        # a scenario spins inside the code under test (no await: the executor cannot see it). Run the chunk again
        # with one process per scenario and a time limit each: the spinning one dies and is reported as such
        log(f"  note: harness run {tag} exceeded its time limit; repeating it with one process per scenario")
        env["QV_ISOLATE"] = "1"
        try:
            p = subprocess.run([QV, "run", sp, tp], stdout=subprocess.PIPE, stderr=subprocess.PIPE,
                               text=True, timeout=3000, env=env)
        except subprocess.TimeoutExpired:
            raise ToolError(f"harness timeout on {tag} (isolated)")
    if p.returncode != 0:
        log(p.stderr[-3000:])
        raise ToolError(f"harness failed on {tag}")
    summ = [json.loads(l) for l in p.stdout.splitlines() if l.startswith("{")]
    for s in summ:
        if s.get("harness_panic"):
            raise ToolError(f"harness panicked outside the code under test in scenario {s['name']}")
    return tp, tp + ".defs", summ


def parse_tlc(out):
    recs = []
    for line in out.splitlines():
        line = line.strip()
        if line.startswith('"@@'):
            try:
                inner = json.loads(line)
                recs.append(json.loads(inner[2:]))
            except Exception as e:  # pragma: no cover
                raise ToolError(f"cannot parse TLC line {line[:200]}: {e}")
    st = re.search(r"(\d+) states generated, (\d+) distinct states found", out)
    gen, dist = (int(st.group(1)), int(st.group(2))) if st else (0, 0)
    ok = "Model checking completed. No error has been found." in out
    return recs, gen, dist, ok


def run_tlc(tp, dp, wd, tag, mode="", known="", cfg="Qcow2Env.cfg", spec="Qcow2Env.tla", timeout=3000):
    if os.path.getsize(dp) == 0:
        # Json module cannot read an empty file: keep one dummy definition
        with open(dp, "w") as f:
            f.write(json.dumps({"e": "Meta", "id": 1, "p": {"n": 0}, "r": {"n": 0}, "rk": [], "pk": []}) + "\n")
    env = dict(os.environ, TRACE=tp, DEFS=dp, MODE=mode, KNOWN=known, JAVA_TOOL_OPTIONS=JAVA_OPTS)
    md = os.path.join(wd, f"states_{tag}")
    cmd = ["tlc", "-workers", "1", "-checkpoint", "0", "-metadir", md, "-cleanup", "-noGenerateSpecTE",
           "-config", cfg, spec]
    try:
        p = subprocess.run(cmd, cwd=SPEC, env=env, stdout=subprocess.PIPE, stderr=subprocess.STDOUT,
                           text=True, timeout=timeout)
    except subprocess.TimeoutExpired:
        raise ToolError(f"TLC timeout on {tag}")
    finally:
        shutil.rmtree(md, ignore_errors=True)
    out = p.stdout
    with open(os.path.join(wd, f"{tag}.tlc.out"), "w") as f:
        f.write(out)
    recs, gen, dist, ok = parse_tlc(out)
    if not ok:
        log(out[-3000:])
        raise ToolError(f"TLC did not finish cleanly on {tag} (see {wd}/{tag}.tlc.out)")
    return recs, gen, dist


def tlc_enumerate(spec, cfg=None, env=None, timeout=600, need_recs=True, workers=4, assume_only=False):
    """run a generator specification; returns the JSON values it printed"""
    cfg = cfg or spec.replace(".tla", ".cfg")
    e = dict(os.environ, JAVA_TOOL_OPTIONS=JAVA_OPTS)
    if env:
        e.update(env)
    md = os.path.join(VERIF, "work", "gen", "states_" + spec.replace(".tla", "") + "_" + str(os.getpid()) + "_" + str(time.time_ns() % 100000))
    os.makedirs(os.path.dirname(md), exist_ok=True)
    try:
        p = subprocess.run(["tlc", "-workers", str(workers), "-metadir", md, "-cleanup", "-noGenerateSpecTE", "-config", cfg, spec],
                           cwd=SPEC, env=e, stdout=subprocess.PIPE, stderr=subprocess.STDOUT, text=True, timeout=timeout)
    except subprocess.TimeoutExpired:
        raise ToolError(f"TLC timeout on generator {spec}")
    finally:
        shutil.rmtree(md, ignore_errors=True)
    recs, gen, dist, ok = parse_tlc(p.stdout)
    if assume_only:
        # a module of ASSUMEs only: TLC stops after evaluating them ("no behavior spec")
        ok = "Error: Assumption" not in p.stdout and "Exception" not in p.stdout and bool(recs)
    if not ok:
        log(p.stdout[-3000:])
        raise ToolError(f"TLC reported an error on {spec}")
    if need_recs and not recs:
        log(p.stdout[-2000:])
        raise ToolError(f"generator {spec} produced nothing")
    return recs, gen, dist


def run_batch(scens, wd, mode="", known="", par=8, chunk=None, isolate=False):
    """run all scenarios (in parallel chunks) and validate; returns a dict
    name -> result"""
    if not scens:
        return {}, dict(states=0, distinct=0, crash_images=0)
    names = [s["name"] for s in scens]
    assert len(set(names)) == len(names), "scenario names must be unique"
    if chunk is None:
        # one TLC run per chunk: at most 2000 scenarios each (a TLC run of half an hour wants to write a
        # checkpoint, which the depth-first state queue cannot), at least one chunk per worker
        chunk = max(1, min(2000, (len(scens) + par - 1) // par))
    chunks = [scens[i:i + chunk] for i in range(0, len(scens), chunk)]
    results = {}
    stats = dict(states=0, distinct=0, crash_images=0, synced_crash_images=0)

    def one(i):
        tag = f"c{i}"
        tp, dp, summ = run_harness(chunks[i], wd, tag, isolate)
        if os.path.getsize(tp) == 0:
            return i, tp, summ, [], 0, 0
        recs, gen, dist = run_tlc(tp, dp, wd, tag, mode, known)
        return i, tp, summ, recs, gen, dist

    with ThreadPoolExecutor(max_workers=par) as ex:
        outs = list(ex.map(one, range(len(chunks))))
    for i, tp, summ, recs, gen, dist in outs:
        stats["states"] += gen
        stats["distinct"] += dist
        by = {s["name"]: s for s in summ}
        lines = None
        for sc in chunks[i]:
            results[sc["name"]] = dict(scenario=sc, summary=by.get(sc["name"], {}), viols=[],
                                       accepted=False, kf=None, reached=None, trace=tp, ri=None, pathviols=[], best=None)
        for r in recs:
            if r[0] == "VIOL":
                results[r[2]]["viols"].append(dict(prop=r[1], line=r[4], detail=r[5]))
            elif r[0] == "ACCEPT":
                res = results[r[1]]
                res["accepted"] = True
                res["paths"] = res.get("paths", 0) + 1
                # one accepting path = one consistent linearization; the run
                # is judged by its best one (fewest violations, then fewest
                # known-finding deviations)
                pv = [dict(prop=v[0], line=v[1], detail=v[2]) for v in r[4]]
                key = (len(pv), len(r[3]))
                if res["kf"] is None or key < res["best"]:
                    res["kf"] = r[3]
                    res["best"] = key
                    res["pathviols"] = pv
            elif r[0] == "REACHED":
                results[r[1]]["reached"] = r[3]
                results[r[1]]["ri"] = r[2]
            elif r[0] == "TOOLERR":
                raise ToolError(f"{r[1]}: {r[3]} {json.dumps(r[4:])[:300]}")
            elif r[0] == "CRASHIMAGES":
                stats["crash_images"] += r[1]
            elif r[0] == "SYNCEDCRASH":
                stats["synced_crash_images"] = stats.get("synced_crash_images", 0) + r[1]
        # unexplained lines
        for sc in chunks[i]:
            res = results[sc["name"]]
            res["viols"] = res["viols"] + res["pathviols"]
            if res["summary"].get("crashed"):
                # the process running this scenario died (isolated mode)
                res["accepted"] = True
                res["viols"].append(dict(prop="CRASH", line=0, detail=["process died", res["summary"]["crashed"]]))
            if not res["accepted"] and res["reached"] is not None:
                if lines is None:
                    with open(tp) as f:
                        lines = f.read().splitlines()
                ln = res["reached"]
                res["stuck_event"] = json.loads(lines[ln - 1]) if ln - 1 < len(lines) else None
    return results, stats


def dedup_viols(viols):
    seen = set()
    out = []
    for v in viols:
        k = json.dumps(v, sort_keys=True)
        if k not in seen:
            seen.add(k)
            out.append(v)
    return out


def load_known():
    p = os.path.join(VERIF, "known_findings.json")
    if not os.path.exists(p):
        return []
    return json.load(open(p))["findings"]


def save_replay(prop, scenario, why):
    d = os.path.join(VERIF, "replays", prop)
    os.makedirs(d, exist_ok=True)
    body = dict(property=prop, scenario=scenario, why=why)
    h = hashlib.sha1(json.dumps(body, sort_keys=True).encode()).hexdigest()[:12]
    p = os.path.join(d, f"{h}.json")
    with open(p, "w") as f:
        json.dump(body, f, indent=1)
    return p


def write_evidence(prop, tier, seed, level, coverage, assumptions, wall, violations):
    d = os.path.join(VERIF, "evidence")
    os.makedirs(d, exist_ok=True)
    ev = dict(property_id=prop, tier=tier, seed=seed, level=level, coverage=coverage,
              assumptions=assumptions, wall_s=round(wall, 1), violations=violations)
    with open(os.path.join(d, f"{prop}.json"), "w") as f:
        json.dump(ev, f, indent=1)
