"""Seeded scenario generators (histories, geometries, image shapes).
Scenario sources: R = these seeded drivers; T = TLC-generated (lib/tlc_gen)."""
import random

# geometry families (DESIGN.md section 7)
def geoms(tier):
    g = {
        "G1": dict(cb=9, ro=4, bsb=9, vclusters=96, params={"l2": [9, 1024], "rb": [9, 1024]}),
        "G2": dict(cb=10, ro=4, bsb=9, vclusters=160, params={"l2": [9, 1024], "rb": [9, 1024]}),
        "G2c": dict(cb=10, ro=4, bsb=9, vclusters=160, params={"l2": [9, 1536], "rb": [9, 1536]}),
        "G2k": dict(cb=10, ro=4, bsb=10, vclusters=140, params={"l2": [10, 2048], "rb": [10, 2048]}),
        "G3a": dict(cb=12, ro=2, bsb=9, vclusters=24, params={"l2": [9, 1024], "rb": [9, 1024]}),
        "G3b": dict(cb=12, ro=0, bsb=12, vclusters=24, params={"l2": [12, 8192], "rb": [12, 8192]}),
        "G3c": dict(cb=12, ro=5, bsb=11, vclusters=24, params={"l2": [11, 8192], "rb": [11, 4096]}),
        "G3d": dict(cb=12, ro=3, bsb=10, vclusters=24, params={"l2": [10, 4096], "rb": [10, 2048]}),
        "G4": dict(cb=9, ro=6, bsb=9, vclusters=200, params={"l2": [9, 1024], "rb": [9, 1024]}),
        "G5": dict(cb=16, ro=4, bsb=9, vclusters=6, params={}),
        "G6": dict(cb=9, ro=1, bsb=9, vclusters=80, params={"l2": [9, 4096], "rb": [9, 1024]}),
    }
    if tier == "quick":
        for k in ["G3d", "G2c"]:
            g.pop(k)
    return g


def image_plain(geo, src="build", shuffle=0, holes=0):
    if src == "format":
        return {"kind": "format", "cb": geo["cb"], "ro": geo["ro"], "vclusters": geo["vclusters"]}
    return {"kind": "build", "desc": {"cb": geo["cb"], "ro": geo["ro"], "vclusters": geo["vclusters"],
                                       "shuffle": shuffle, "holes": holes, "clusters": []}}


def image_shaped(rng, geo, wid, frac=0.3, kinds=("data", "zero", "zero_prealloc", "comp"), version=3,
                 shuffle=None, vclusters=None, l1_entries=None, size_minus_sectors=0):
    vc = vclusters or geo["vclusters"]
    cl = []
    for g in range(vc):
        if rng.random() < frac:
            k = rng.choice(kinds)
            if version == 2 and k in ("zero", "zero_prealloc"):
                k = "data"
            cl.append({"g": g, "kind": k, "wid": wid})
    desc = {"cb": geo["cb"], "ro": 4 if version == 2 else geo["ro"], "vclusters": vc, "version": version,
            "shuffle": rng.randrange(1, 1 << 30) if shuffle is None else shuffle,
            "holes": rng.choice([0, 0, 2]), "clusters": cl, "size_minus_sectors": size_minus_sectors}
    if l1_entries is not None:
        desc["l1_entries"] = l1_entries
    # host file that ends at any byte inside its last (data) cluster
    bpc = 1 << (geo["cb"] - geo["bsb"])
    r2 = random.Random(desc["shuffle"] * 31 + vc)
    if bpc > 1 and r2.random() < 0.3:
        bs = 1 << geo["bsb"]
        desc["eof_cut"] = [r2.randrange(1, bpc), r2.choice([0, 1, 8, 488, 511, bs // 2 + 3, bs - 1]) % bs]
    if any(c["kind"] == "comp" for c in cl) and rng.random() < 0.5:
        desc["comp_start"] = (1 << geo["cb"]) - rng.choice([8, 24, 100, 200])
    return {"kind": "build", "desc": desc}


def rand_range(rng, geo, maxlen_clusters=3):
    """block range biased to boundaries: sub-cluster, straddling, slice edges"""
    bpc = 1 << (geo["cb"] - geo["bsb"])
    vb = geo["vclusters"] * bpc
    sl_entries = (1 << geo["params"].get("l2", [12, 0])[0]) // 8 if geo["params"] else 512
    mode = rng.random()
    if mode < 0.15:
        # around an L2 slice / table boundary
        edges = [e for e in range(sl_entries, geo["vclusters"], sl_entries)]
        if edges:
            c = rng.choice(edges) + rng.choice([-1, 0])
        else:
            c = rng.randrange(geo["vclusters"])
    elif mode < 0.25:
        c = rng.choice([0, geo["vclusters"] - 1, geo["vclusters"] - 2])
    else:
        c = rng.randrange(geo["vclusters"])
    c = max(0, min(geo["vclusters"] - 1, c))
    off = rng.choice([0, 0, 1, bpc - 1]) % bpc if bpc > 1 else 0
    gb = c * bpc + off
    r = rng.random()
    if r < 0.35:
        n = 1
    elif r < 0.55:
        n = bpc - off                      # to the end of the cluster
    elif r < 0.8:
        n = bpc - off + rng.randrange(1, bpc + 1)    # straddle
    else:
        n = rng.randrange(1, maxlen_clusters * bpc + 1)
    n = max(1, min(n, vb - gb))
    return gb, n


def seq_history(rng, geo, nops, sweep_every=4, weights=None, final=True, reopen_params=None):
    w = dict(write=40, read=15, discard=12, flush=10, fsync=3, shrink=4, reopen=4, sweep=0, check=1)
    if weights:
        w.update(weights)
    kinds = list(w.keys())
    ws = [w[k] for k in kinds]
    steps = []
    bpc = 1 << (geo["cb"] - geo["bsb"])
    hot = [rand_range(rng, geo) for _ in range(4)]
    for i in range(nops):
        k = rng.choices(kinds, ws)[0]
        if k in ("write", "read"):
            gb, n = rng.choice(hot) if rng.random() < 0.35 else rand_range(rng, geo)
            steps.append({"op": k, "gb": gb, "n": n})
        elif k == "discard":
            gb, n = rng.choice(hot) if rng.random() < 0.35 else rand_range(rng, geo, 4)
            if rng.random() < 0.6:
                # whole clusters
                gb = gb // bpc * bpc
                n = max(bpc, (n + bpc - 1) // bpc * bpc)
                n = min(n, geo["vclusters"] * bpc - gb)
            steps.append({"op": "discard", "gb": gb, "n": n})
        elif k == "reopen":
            steps.append({"op": "flush"})
            st = {"op": "reopen"}
            if reopen_params and rng.random() < 0.5:
                st["params"] = rng.choice(reopen_params)
            steps.append(st)
        else:
            steps.append({"op": k})
        if sweep_every and (i + 1) % sweep_every == 0:
            steps.append({"op": "sweep"})
    if final:
        steps += [{"op": "sweep"}, {"op": "flush"}, {"op": "sweep"}, {"op": "reopen"}, {"op": "sweep"}]
    return steps


def alt_params(geo):
    """other legal (slice size, cache size) parameter sets for reopen"""
    cb, bsb = geo["cb"], geo["bsb"]
    out = []
    for sb in range(bsb, min(cb, 12) + 1):
        for cnt in (2, 3, 8):
            out.append({"l2": [sb, cnt << sb], "rb": [sb, cnt << sb]})
    return out


def mk(name, geo, images, steps, **kw):
    s = {"name": name, "bsb": geo["bsb"], "images": images, "params": geo["params"] or {}, "steps": steps}
    s.update(kw)
    return s
