------------------------------ MODULE GenOps ------------------------------
(* Small-scope exhaustive histories.  TLC enumerates EVERY sequence of at    *)
(* most DEPTH operations over two guest clusters of a tiny device, up to    *)
(* the redundancy rules below; the driver runs each of them, on each of the *)
(* image variants, in the real Qcow2Dev and the envelope specification      *)
(* (Qcow2Env.tla) judges the recorded execution, crash branching included.  *)
(* Random histories sample long behaviours; this family leaves no short     *)
(* one out: every ordering slip that two or three operations on one or two  *)
(* clusters can expose is exposed.                                          *)
EXTENDS Integers, Sequences, SequencesExt, FiniteSets, TLC, Json, IOUtils

Depth == IF "DEPTH" \in DOMAIN IOEnv THEN atoi(IOEnv.DEPTH) ELSE 3

\* operations: write to guest cluster g (whole cluster / first block only /
\* last block only), discard of cluster g, discard of both, flush_meta,
\* fsync_range, shrink_caches (evicts every slice), reopen (drop + open),
\* check() (walks all mappings and refcounts: loads and evicts slices)
Writes   == { [op |-> "w", g |-> g, part |-> p] : g \in {0, 1}, p \in {"full", "head"} }
           \cup { [op |-> "w", g |-> 1, part |-> "tail"], [op |-> "w", g |-> 0, part |-> "both"] }
Discards == { [op |-> "d", g |-> g, part |-> "full"] : g \in {0, 1} } \cup { [op |-> "d", g |-> 0, part |-> "both"] }
Ctl      == { [op |-> c, g |-> 0, part |-> "-"] : c \in {"f", "s", "k", "r", "c"} }
Ops      == Writes \cup Discards \cup Ctl

IsCtl(o) == o.op \in {"f", "s", "k", "r", "c"}

\* redundancy rules: a history starts with a modifying operation; the same
\* control operation is not repeated back to back; fsync_range and reopen
\* directly after reopen add nothing
OK(h) ==
  /\ Len(h) >= 1 /\ ~IsCtl(h[1])
  /\ \A i \in 1 .. Len(h) - 1 :
        /\ ~(IsCtl(h[i]) /\ h[i] = h[i + 1])
        /\ ~(h[i].op = "r" /\ h[i + 1].op \in {"s", "r", "k", "f"})
        /\ ~(h[i].op = "c" /\ h[i + 1].op \in {"s", "c"})

VARIABLE h
Init == h = << >>
Next == /\ Len(h) < Depth
        /\ \E o \in Ops : h' = Append(h, o)
Spec == Init /\ [][Next]_h

Emit == (Len(h) >= 1 /\ OK(h)) => PrintT("@@" \o ToJson([ops |-> h]))

---------------------------------------------------------------------------
(* Concurrent small scope (MODE=par): at most one operation first, then a   *)
(* group of two (PARN=3: three) operations that overlap; reopen takes no    *)
(* part in a group.  Groups are multisets - which member runs when is the   *)
(* scheduler's choice, explored by schedule seeds and sweeps.               *)
ParOps == Ops \ { [op |-> "r", g |-> 0, part |-> "-"] }
ParN == IF "PARN" \in DOMAIN IOEnv THEN atoi(IOEnv.PARN) ELSE 2
OpSeq == SetToSeq(ParOps)                    \* some fixed order
Rank(o) == CHOOSE n \in 1 .. Len(OpSeq) : OpSeq[n] = o
\* sorted tuples stand for multisets
SortedTuples(n) == { t \in [1 .. n -> ParOps] : \A i \in 1 .. n - 1 : Rank(t[i]) <= Rank(t[i + 1]) }
Groups == { t \in SortedTuples(ParN) : \E i \in 1 .. ParN : ~IsCtl(t[i]) \/ t[i].op = "f" }
\* prefixes: nothing, one modifying operation, a write followed by flush_meta
\* (clean cached slices) or by shrink_caches (nothing cached)
Pres == { << >> } \cup { <<o>> : o \in Ops \ Ctl }
        \cup { <<o, [op |-> c, g |-> 0, part |-> "-"]>> : o \in Writes, c \in {"f", "k"} }
\* (one expression mentioning h: TLC evaluates constant-level definitions at start-up)
EmitParOnce == (h = << >>) => \A p \in Pres : \A t \in Groups : PrintT("@@" \o ToJson([pre |-> p, par |-> t]))

=============================================================================
