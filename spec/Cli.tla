-------------------------------- MODULE Cli --------------------------------
(* C20: the rqcow2 command line.  TLC enumerates the class product; the     *)
(* driver instantiates each class, runs the freshly built binary under a    *)
(* timeout and compares with the expected outcome stated here.              *)
EXTENDS Integers, Sequences, TLC, Json

\* raw input size classes for convert (bytes): 0, sub-block, sub-cluster,
\* non-multiples of the block and cluster size, multi-chunk (> 8 MiB)
SizeClasses == {"zero", "one", "block_minus_1", "block", "block_plus_1", "sub_cluster",
                "cluster_minus_1", "cluster", "cluster_plus_1", "clusters_odd",
                "chunk", "chunk_plus_block", "multi_chunk_odd"}
ContentClasses == {"random", "zeros", "sparse", "stamp"}

\* convert raw -> qcow2 -> raw: always terminates with exit 0 and reproduces
\* the input zero-padded to the cluster size (64 KiB)
ConvertCases == { [t |-> "convert", size |-> s, content |-> c, exit |-> 0, padded_to |-> 65536]
                  : s \in SizeClasses, c \in ContentClasses }

\* format: every supported parameter combination gives an image the
\* independent checker (Qcow2Format.tla) accepts
FormatCases == { [t |-> "format", mb |-> mb, cb |-> cb, ro |-> ro, exit |-> 0]
                 : mb \in {1, 64, 1024}, cb \in {9, 12, 16, 21}, ro \in {0, 4, 6} }

\* check: accepts consistent images, reports failure for images with leaks
CheckCases == { [t |-> "check", leaks |-> k, shape |-> sh, accept |-> (k = 0)]
                : k \in {0, 1, 3}, sh \in {"plain", "data", "zero_prealloc", "compressed"} }

ASSUME \A c \in ConvertCases \cup FormatCases \cup CheckCases : PrintT("@@" \o ToJson(c))
=============================================================================
