-------------------------------- MODULE Cli --------------------------------
(* C20: the rqcow2 command line.  TLC enumerates the class product; the     *)
(* driver instantiates each class, runs the freshly built binary under a    *)
(* timeout and compares with the expected outcome stated here.              *)
EXTENDS Integers, Sequences, TLC, Json, IOUtils

\* raw input size classes for convert (bytes): 0, sub-block, sub-cluster,
\* non-multiples of the block and cluster size, multi-chunk (> 8 MiB)
SizeClasses == {"zero", "one", "block_minus_1", "block", "block_plus_1", "sub_cluster",
                "cluster_minus_1", "cluster", "cluster_plus_1", "clusters_odd",
                "chunk", "chunk_plus_block", "multi_chunk_odd"}
ContentClasses == {"random", "zeros", "sparse", "stamp"}

\* convert raw -> qcow2 -> raw: always terminates with exit 0 and reproduces
\* the input zero-padded to the cluster size (64 KiB)
ConvertCases == { [t |-> "convert", size |-> s, content |-> c, exit |-> 0, padded_to |-> 65536]
                  : s \in SizeClasses, c \in ContentClasses }

\* format: every supported parameter combination gives an image the
\* independent checker (Qcow2Format.tla) accepts
FormatCases == { [t |-> "format", mb |-> mb, cb |-> cb, ro |-> ro, exit |-> 0]
                 : mb \in {1, 64, 1024}, cb \in {9, 12, 16, 21}, ro \in {0, 4, 6} }

\* sizes at which the metadata of a fresh image (header, refcount table, L1
\* table, refcount blocks) fills a whole number of refcount blocks, give or
\* take a few clusters: the refcount blocks have to describe themselves, so
\* that is where their number is easy to get wrong.  Small clusters and wide
\* refcounts only (few refcounts per block).
Pow2(n) == 2 ^ n
RbEntries(cb, ro) == (Pow2(cb) * 8) \div Pow2(ro)
L1Clusters(mb, cb) ==
  LET v   == mb * (Pow2(20) \div Pow2(cb))            \* guest clusters
      l2n == Pow2(cb) \div 8
      l1e == (v + l2n - 1) \div l2n
  IN (l1e * 8 + Pow2(cb) - 1) \div Pow2(cb)
NearBlockMultiple(x, n) == \E k \in 1 .. 5 : x >= k * n - 5 /\ x <= k * n + 1
All == "ALLSIZES" \in DOMAIN IOEnv /\ IOEnv.ALLSIZES = "1"
MaxMb == IF "MAXMB" \in DOMAIN IOEnv THEN atoi(IOEnv.MAXMB) ELSE 700
FormatBoundaryCases ==
  { [t |-> "format", mb |-> mb, cb |-> g[1], ro |-> g[2], exit |-> 0, boundary |-> 1]
    : <<mb, g>> \in { p \in (1 .. MaxMb) \X {<<9, 6>>, <<9, 5>>, <<10, 6>>} :
                        All \/ NearBlockMultiple(2 + L1Clusters(p[1], p[2][1]), RbEntries(p[2][1], p[2][2])) } }

\* check: accepts consistent images, reports failure for images with leaks
CheckCases == { [t |-> "check", leaks |-> k, shape |-> sh, accept |-> (k = 0)]
                : k \in {0, 1, 3}, sh \in {"plain", "data", "zero_prealloc", "compressed"} }

ASSUME \A c \in ConvertCases \cup FormatCases \cup FormatBoundaryCases \cup CheckCases : PrintT("@@" \o ToJson(c))
=============================================================================
