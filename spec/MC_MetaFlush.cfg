CONSTANTS RuleMutex = TRUE RuleRcFirst = TRUE RuleBarrier = TRUE RuleUnmapFirst = TRUE
SPECIFICATION Spec
INVARIANT CrashSafe
CHECK_DEADLOCK FALSE
CONSTANT defaultInitValue = defaultInitValue
