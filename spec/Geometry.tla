----------------------------- MODULE Geometry -----------------------------
(* C09 / C15: the qcow2 specification's geometry formulas, in the log      *)
(* domain.  Given cluster_bits cb, refcount_order ro and the slice sizes    *)
(* chosen by the device parameters (or their documented defaults), every    *)
(* derived quantity of the library (Qcow2Info) is determined.               *)
EXTENDS Integers

Pow2(n) == 2 ^ n
Min(a, b) == IF a < b THEN a ELSE b
Max(a, b) == IF a > b THEN a ELSE b

\* qcow2 spec: l2_entries = cluster_size / 8 ; refcount_block_entries =
\* cluster_size * 8 / refcount_bits
L2Bits(cb)      == cb - 3
RbBits(cb, ro)  == cb + 3 - ro

\* default slice size: 4 KiB, but never bigger than a cluster
SliceBits(param, cb) == IF param >= 0 THEN param ELSE Min(12, cb)

\* the derived record a device must report; vsz512 = virtual size in sectors
Expected(cb, ro, bsb, l2p, rbp, l2cnt, rbcnt, vsz512) ==
  LET l2sb == SliceBits(l2p, cb)
      rbsb == SliceBits(rbp, cb)
  IN [ block_size_shift      |-> bsb,
       cluster_shift         |-> cb,
       refcount_order        |-> ro,
       in_cluster_offset_mask |-> Pow2(cb) - 1,
       l2_index_shift        |-> L2Bits(cb),
       l2_index_mask         |-> Pow2(L2Bits(cb)) - 1,
       l2_slice_bits         |-> l2sb,
       l2_slice_index_shift  |-> l2sb - 3,
       l2_slice_entries      |-> Pow2(l2sb - 3),
       rb_index_shift        |-> RbBits(cb, ro),
       rb_index_mask         |-> Pow2(RbBits(cb, ro)) - 1,
       rb_slice_bits         |-> rbsb,
       rb_slice_index_shift  |-> rbsb + 3 - ro ]

\* caches hold at least two slices
CacheCountOK(reported, given) == reported >= 2 /\ (given >= 0 => reported = given)
=============================================================================
