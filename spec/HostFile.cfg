SPECIFICATION Spec
INVARIANT Emit
PROPERTY LengthMonotone
CHECK_DEADLOCK FALSE
