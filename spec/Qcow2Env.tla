----------------------------- MODULE Qcow2Env -----------------------------
(* E - the envelope: what ANY correct qcow2 writer may do, observed at the  *)
(* two interfaces the properties talk about (the public API and the        *)
(* backend request stream).  Its actions are objective events; all the      *)
(* substance is in the Inv_Cxx predicates, which transliterate the given    *)
(* properties.  A recorded execution of the real code is accepted iff some  *)
(* behaviour of this specification consumes its whole trace.                *)
(*                                                                          *)
(* This module is the trace specification at the same time: Rec is the      *)
(* recorded trace (many independent runs, each starting with a Reset        *)
(* event - every run is one initial state, so a rejected run does not hide  *)
(* the others), Defs the interned metadata/header block readings.           *)
EXTENDS Integers, Sequences, FiniteSets, TLC, TLCExt, Json, IOUtils, Validate

Rec  == ndJsonDeserialize(IOEnv.TRACE)
Defs == ndJsonDeserialize(IOEnv.DEFS)
\* which optional parts are on: "crash", "strict" ...
Mode == IF "MODE" \in DOMAIN IOEnv THEN IOEnv.MODE ELSE ""
\* known-finding deviations that may be taken (comma separated tags)
KnownTags == IF "KNOWN" \in DOMAIN IOEnv THEN IOEnv.KNOWN ELSE ""

HasSub(s, sub) ==
  \E i \in 1 .. (Len(s) - Len(sub) + 1) : SubSeq(s, i, i + Len(sub) - 1) = sub
CrashOn  == HasSub(Mode, "crash")
KFOn(tag) == HasSub(KnownTags, tag)

VARIABLES
  l,       \* next trace line to consume
  sil,     \* the last step was silent (no line consumed)
  ri,      \* line of this run's Reset event
  vis,     \* visible host file of the top image: blk -> content
  dur,     \* durable host file
  pend,    \* sequence of modifying requests issued and not yet durable
  fsn,     \* fsyncs in flight with the snapshot they will make durable
  rq,      \* backend requests in flight
  cur,     \* flat guest disk: gb -> set of admissible tokens
  kind,    \* gc -> kind of the guest cluster in the flat model
  calls,   \* API calls in flight
  sync,    \* C05 book-keeping
  cand,    \* candidate sync point (a flush_meta in progress / done)
  crashed, cimg, \* terminal crash state and its image
  kf,      \* known-finding deviations taken on this path
  lastc,   \* the call that has just returned (for the Ret predicates)
  cinfo,   \* where/how the crash happened (hidden by the VIEW: equal images are checked once)
  nf,      \* last sampled value of need_flush_meta() (1/0; -1 = not sampled)
  viol,    \* violations found along this path: sequence of <<property, line, detail>>
  ram,     \* last sampled in-ram view of the metadata (hook H1), as an image
  alloced  \* host clusters handed out through the allocator hook and not freed

vars == <<l, sil, ri, vis, dur, pend, fsn, rq, cur, kind, calls, sync, cand,
          crashed, cimg, kf, lastc, cinfo, nf, viol, ram, alloced>>
View == <<l, sil, ri, vis, dur, pend, fsn, rq, cur, kind, calls, sync, cand,
          crashed, cimg, kf, lastc, nf, IF crashed THEN <<>> ELSE viol,
          IF crashed THEN <<>> ELSE ram, alloced>>

R0 == Rec[ri]
G  == R0.g
Ev == Rec[l]
N  == Len(Rec)

---------------------------------------------------------------------------
(* contents: <<k, t>> with k in "z" (zeros), "d" (data stamp, t = token),  *)
(* "m" (other bytes, t = id in Defs), "h" (header, t = id in Defs)         *)
ZB == <<"z", 0>>
BKind(img, b) == IF b \in DOMAIN img THEN img[b][1] ELSE "z"
BTok(img, b)  == img[b][2]
Key(i) == ToString(i)

INSTANCE_ZeroE == [c |-> 0, ua |-> 0, cp |-> 0, cm |-> 0, z |-> 0, lo |-> 0, hi |-> 0,
          cc |-> 0, cs |-> 0, cbo |-> 0, ns |-> 0, big |-> 0]
BPtr(img, b, i) ==
  IF BKind(img, b) = "m"
  THEN LET p == Defs[img[b][2]].p IN
       IF Key(i) \in DOMAIN p THEN p[Key(i)] ELSE INSTANCE_ZeroE
  ELSE INSTANCE_ZeroE
BRc(img, b, i) ==
  IF BKind(img, b) = "m"
  THEN LET r == Defs[img[b][2]].r IN
       IF Key(i) \in DOMAIN r THEN r[Key(i)] ELSE 0
  ELSE 0
BRcDom(img, b) ==
  IF BKind(img, b) = "m"
  THEN LET rk == Defs[img[b][2]].rk IN { rk[k] : k \in 1 .. Len(rk) }
  ELSE {}
NoHdr == [ver |-> 0, cb |-> 0, ro |-> 0, vsz |-> 0, vszb |-> 0, l1c |-> 0, l1ua |-> 1, l1n |-> 0,
          rtc |-> 0, rtua |-> 1, rtn |-> 0, crypt |-> 0, inc |-> 0, snap |-> 0, back |-> 0,
          hlen |-> 0, comp |-> 0]
BPtrDom(img, b) ==
  IF BKind(img, b) = "m"
  THEN LET pk == Defs[img[b][2]].pk IN { pk[k] : k \in 1 .. Len(pk) }
  ELSE {}
BHdr(img) == IF BKind(img, 0) = "h" THEN Defs[img[0][2]].h ELSE NoHdr

F == INSTANCE Qcow2Format
Geo == INSTANCE Geometry

---------------------------------------------------------------------------
(* helpers *)
Max(a, b) == IF a > b THEN a ELSE b
Min(a, b) == IF a < b THEN a ELSE b
Range(s) == { s[i] : i \in 1 .. Len(s) }
Blocks(gb, n) == IF n <= 0 THEN {} ELSE gb .. gb + n - 1
TokOf(wid, b) == wid * 4096 + (b % 4096)
Unknown == -9          \* "any value" marker inside cur[gb]

CallById(id) == CHOOSE c \in calls : c.id = id
ReqById(id)  == CHOOSE q \in rq : q.id = id
HasCall(id)  == \E c \in calls : c.id = id

\* apply a sequence of contents to an image starting at block b
Put(img, b, bl) ==
  [x \in DOMAIN img |->
     IF x >= b /\ x < b + Len(bl) THEN bl[x - b + 1] ELSE img[x]]
Zeros(n) == [i \in 1 .. n |-> ZB]

\* compressed clusters are never created by the library: an entry is
\* readable iff it is the original descriptor of that guest cluster and its
\* payload blocks are still the initial bytes
CompTokIn(img, gb, e) ==
  LET gc == gb \div G.bpc
      cs == { c \in Range(R0.comp) : c.g = gc }
  IN IF cs = {} THEN F!NoTok
     ELSE LET c == CHOOSE x \in cs : TRUE IN
          IF c.cc = e.cc /\ c.cs = e.cs /\ c.cbo = e.cbo /\ c.ns = e.ns
             /\ \A b \in c.b0 .. c.b1 :
                  (IF b \in DOMAIN img THEN img[b] ELSE ZB) =
                  (IF Key(b) \in DOMAIN R0.devs[1].img THEN R0.devs[1].img[Key(b)] ELSE ZB)
          THEN R0.init[gb + 1]
          ELSE F!NoTok
CompTokVis(gb, e) == CompTokIn(vis, gb, e)
CompTokCrash(gb, e) == CompTokIn(cimg, gb, e)

GuestVis(gb)   == F!GuestBlock(vis, G, gb, R0.btok[gb + 1], CompTokVis)
GuestCrash(gb) == F!GuestBlock(cimg, G, gb, R0.btok[gb + 1], CompTokCrash)

GBs == 0 .. G.vblocks - 1
GCs == 0 .. G.vclusters - 1

---------------------------------------------------------------------------
(* Initial states: one per recorded run *)
RunStarts == { i \in 1 .. N : Rec[i].e = "Reset" }

Img0(r) ==
  [b \in 0 .. r.maxb - 1 |->
     IF Key(b) \in DOMAIN r.devs[1].img THEN r.devs[1].img[Key(b)] ELSE ZB]

NoCall == [id |-> 0]
NoRam == [ok |-> FALSE, img |-> <<>>]
NoCand == [st |-> "none", val |-> <<>>, since |-> <<>>, alone |-> FALSE]

Init ==
  \E i \in RunStarts :
    LET r == Rec[i] IN
    /\ ri = i /\ l = i + 1 /\ sil = FALSE
    /\ vis = Img0(r) /\ dur = Img0(r)
    /\ pend = <<>> /\ fsn = {} /\ rq = {}
    /\ cur = [gb \in 0 .. r.g.vblocks - 1 |-> {r.init[gb + 1]}]
    /\ kind = [gc \in 0 .. r.g.vclusters - 1 |-> r.kind[gc + 1]]
    /\ calls = {}
    /\ sync = [have |-> FALSE, val |-> <<>>, later |-> <<>>]
    /\ cand = NoCand
    /\ crashed = FALSE /\ cimg = <<>> /\ kf = {} /\ lastc = NoCall /\ cinfo = <<>> /\ nf = -1 /\ viol = <<>> /\ ram = NoRam /\ alloced = {}

---------------------------------------------------------------------------
(* Backend events *)
IsEv(e) == ~crashed /\ l <= N /\ Ev.e = e
Consume == l' = l + 1 /\ sil' = FALSE
NoRet == lastc' = NoCall /\ cinfo' = cinfo /\ nf' = nf /\ ram' = ram /\ alloced' = alloced

Req ==
  /\ IsEv("Req") /\ Consume
  /\ LET ev == Ev IN
     /\ rq' = rq \cup {[id |-> ev.id, k |-> ev.k, t |-> ev.t, dev |-> ev.dev,
                        blk |-> ev.blk, n |-> ev.n, bl |-> ev.bl]}
     /\ IF ev.dev = 0 /\ ev.k \in {"W", "P"} /\ ev.blk + ev.n <= R0.maxb
        THEN pend' = Append(pend, [id |-> ev.id, blk |-> ev.blk,
                                   bl |-> IF ev.k = "W" THEN ev.bl ELSE Zeros(ev.n),
                                   done |-> FALSE])
        ELSE pend' = pend
     /\ IF ev.dev = 0 /\ ev.k = "S"
        THEN LET ids == { pend[i].id : i \in { j \in 1 .. Len(pend) : pend[j].done } }
                 tb  == UNION { Blocks(pend[i].blk, Len(pend[i].bl)) :
                                i \in { j \in 1 .. Len(pend) : pend[j].done } }
             IN fsn' = fsn \cup {[id |-> ev.id, ids |-> ids,
                                   snap |-> [b \in tb |-> vis[b]]]}
        ELSE fsn' = fsn
     \* a modifying request on behalf of a call is remembered (C13)
     /\ calls' = { IF c.id = ev.t /\ ev.k \in {"W", "P"}
                   THEN [c EXCEPT !.modreq = TRUE] ELSE c : c \in calls }
  /\ NoRet
  /\ UNCHANGED <<ri, vis, dur, cur, kind, sync, cand, crashed, cimg, kf>>

MarkFault(t) == { IF c.id = t THEN [c EXCEPT !.faulted = TRUE] ELSE c : c \in calls }

Done ==
  /\ IsEv("Done") /\ Consume
  /\ LET ev == Ev
         q  == ReqById(ev.id)
         ok == ev.res = "ok"
     IN
     /\ rq' = rq \ {q}
     /\ calls' = IF ~ok /\ ev.inj = 1 THEN MarkFault(q.t) ELSE calls
     /\ IF q.dev # 0 \/ q.k = "R" \/ q.blk + q.n > R0.maxb THEN
          UNCHANGED <<vis, dur, pend, fsn>>
        ELSE IF q.k = "W" THEN
          /\ vis' = IF ok THEN Put(vis, q.blk, q.bl) ELSE Put(vis, q.blk, ev.bl)
          /\ pend' = [i \in 1 .. Len(pend) |->
                        IF pend[i].id = q.id THEN [pend[i] EXCEPT !.done = TRUE]
                        ELSE pend[i]]
          /\ UNCHANGED <<dur, fsn>>
        ELSE IF q.k = "P" THEN
          /\ vis' = IF ok THEN Put(vis, q.blk, Zeros(q.n)) ELSE vis
          /\ pend' = IF ok
                     THEN [i \in 1 .. Len(pend) |->
                             IF pend[i].id = q.id THEN [pend[i] EXCEPT !.done = TRUE]
                             ELSE pend[i]]
                     ELSE SelectSeq(pend, LAMBDA p : p.id # q.id)
          /\ UNCHANGED <<dur, fsn>>
        ELSE \* fsync
          LET f == CHOOSE x \in fsn : x.id = q.id
              \* an fsync that was issued earlier and is still in flight must
              \* not bring back what this (later) one has just superseded
              Older(x) == [x EXCEPT !.snap = [b \in (DOMAIN x.snap) \ (DOMAIN f.snap) |-> x.snap[b]]]
          IN
          /\ fsn' = IF ok THEN { IF x.id < f.id THEN Older(x) ELSE x : x \in fsn \ {f} }
                     ELSE fsn \ {f}
          /\ IF ok
             THEN /\ dur' = [b \in DOMAIN dur |->
                               IF b \in DOMAIN f.snap THEN f.snap[b] ELSE dur[b]]
                  /\ pend' = SelectSeq(pend, LAMBDA p : p.id \notin f.ids)
             ELSE UNCHANGED <<dur, pend>>
          /\ vis' = vis
  /\ NoRet
  /\ UNCHANGED <<ri, cur, kind, sync, cand, crashed, cimg, kf>>

---------------------------------------------------------------------------
(* API events *)

\* blocks a call acts on in the flat model
CallBlocks(ev) ==
  IF ev.op = "write" THEN (IF WriteValid(ev.cls) THEN Blocks(ev.gb, ev.n) ELSE {})
  ELSE IF ev.op = "read" THEN
       (IF ReadValid(ev.cls)
        THEN Blocks(ev.gb, IF ev.cls.end = "le" THEN ev.n ELSE ev.cls.clamp) ELSE {})
  ELSE IF ev.op = "discard" THEN (IF ev.cls.ro = 0 THEN Blocks(ev.gb, ev.n) ELSE {})
  ELSE {}

Mutating(op) == op \in {"write", "discard"}

AddTo(f, S, v) == [b \in DOMAIN f |-> IF b \in S THEN f[b] \cup v ELSE f[b]]

Call ==
  /\ IsEv("Call") /\ Consume
  /\ LET ev == Ev
         bs == CallBlocks(ev)
         c  == [id |-> ev.id, op |-> ev.op, gb |-> ev.gb, n |-> ev.n, wid |-> ev.wid,
                cls |-> ev.cls, todo |-> IF Mutating(ev.op) THEN bs ELSE {},
                blocks |-> bs,
                seen |-> [b \in (IF ev.op = "read" THEN bs ELSE {}) |-> cur[b]],
                faulted |-> FALSE, modreq |-> FALSE,
                pre |-> cand.st = "ok",
                \* the file is in sync with the device: a flush_meta returned Ok
                \* and nothing has been issued since
                clean |-> cand.st = "ok" /\ cand.alone /\ calls = {},
                \* allocator histories: the in-ram view when the call started
                ram0 |-> IF ev.op = "alloc" THEN ram ELSE NoRam,
                pre_alloced |-> {}]
     IN
     \* (a call that overlaps another one does not see a file in sync any more)
     /\ calls' = { [x EXCEPT !.clean = FALSE] : x \in calls } \cup {c}
     /\ IF ev.op = "flush" THEN
          \* candidate sync point: the blocks no call in flight may still change
          LET busy == UNION { x.todo : x \in calls } IN
          cand' = [st |-> "run", id |-> ev.id,
                   val |-> [b \in GBs \ busy |-> cur[b]],
                   since |-> [b \in GBs \ busy |-> {}],
                   alone |-> calls = {}]
        ELSE IF Mutating(ev.op) THEN
          \* what this call may leave in its blocks counts as "later"
          LET vals(b) == IF ev.op = "write" THEN {TokOf(ev.wid, b)}
                         ELSE {0, R0.btok[b + 1]} IN
          cand' = IF cand.st = "none" THEN cand
                  ELSE [cand EXCEPT
                          !.since = [b \in DOMAIN cand.since |->
                                       IF b \in bs THEN cand.since[b] \cup vals(b)
                                       ELSE cand.since[b]],
                          !.alone = FALSE]
        ELSE cand' = cand
     /\ IF Mutating(ev.op) /\ sync.have
        THEN sync' = [sync EXCEPT !.later =
                        [b \in DOMAIN sync.later |->
                           IF b \in bs
                           THEN sync.later[b] \cup
                                (IF ev.op = "write" THEN {TokOf(ev.wid, b)}
                                 ELSE {0, R0.btok[b + 1]})
                           ELSE sync.later[b]]]
        ELSE sync' = sync
  /\ NoRet
  /\ UNCHANGED <<ri, vis, dur, pend, fsn, rq, cur, kind, crashed, cimg, kf>>

\* value a mutating call leaves in block b, given the kind of its cluster;
\* the result is <<set of admissible tokens, replace?>>
ClustersOf(S) == { b \div G.bpc : b \in S }

\* effect of linearizing call c on the block set S (whole clusters for
\* discard) - "ok" says whether the call is known to have taken effect
ApplyCur(c, S, sure) ==
  [b \in DOMAIN cur |->
     IF b \notin S THEN cur[b]
     ELSE IF c.op = "write" THEN
            (IF sure THEN {TokOf(c.wid, b)} ELSE cur[b] \cup {TokOf(c.wid, b)})
     ELSE \* discard: C11
       LET k == kind[b \div G.bpc] IN
       IF k = "d" THEN (IF sure THEN {0} ELSE cur[b] \cup {0})
       ELSE IF k = "x" THEN cur[b] \cup {0}
       ELSE cur[b]]

ApplyKind(c, S, sure) ==
  [gc \in DOMAIN kind |->
     IF gc \notin ClustersOf(S) THEN kind[gc]
     ELSE IF c.op = "write" THEN (IF sure THEN "d" ELSE "x")
     ELSE IF kind[gc] = "d" THEN (IF sure THEN "dd" ELSE "x")
     ELSE kind[gc]]

\* deviation (known finding C11/backing): a discarded cluster that had its
\* own allocation (data or preallocated-zero) shows the backing content
DevDiscardCur(c, S) ==
  [b \in DOMAIN cur |->
     IF b \in S /\ kind[b \div G.bpc] \in {"d", "zp"} THEN {R0.btok[b + 1]} ELSE cur[b]]
DevDiscardKind(c, S) ==
  [gc \in DOMAIN kind |->
     IF gc \in ClustersOf(S) /\ kind[gc] \in {"d", "zp"} THEN "u" ELSE kind[gc]]
DevDiscardApplies(c, S) ==
  /\ c.op = "discard" /\ R0.back = 1 /\ KFOn("C11-backing")
  /\ \E b \in S : kind[b \div G.bpc] \in {"d", "zp"} /\ R0.btok[b + 1] # 0

\* every read in flight sees the new values of the blocks that changed
SeeNew(cs, newcur, S) ==
  { IF x.op = "read"
    THEN [x EXCEPT !.seen = [b \in DOMAIN x.seen |->
                               IF b \in S THEN x.seen[b] \cup newcur[b] ELSE x.seen[b]]]
    ELSE x : x \in cs }

\* Discards act on whole clusters, which couples the order on the blocks of a
\* cluster: the clusters whose order may have to be decided together with the
\* clusters CS are those reachable through discards in flight
Grow(CS) == CS \cup UNION { ClustersOf(d.todo) : d \in { x \in calls : x.op = "discard" /\ ClustersOf(x.todo) \cap CS # {} } }
Coupled(CS) == Grow(Grow(Grow(CS)))

\* silent: another call in flight takes effect on blocks of the call that is
\* about to return (linearization points are normalised to sit immediately
\* before a Ret)
LinOther ==
  /\ IsEv("Ret") /\ HasCall(Ev.id)
  /\ LET c0 == CallById(Ev.id) IN
     \E c \in calls :
       /\ c.id # c0.id /\ Mutating(c.op)
       /\ LET ov == { b \in c.todo : b \div G.bpc \in Coupled(ClustersOf(c0.blocks)) }
              \* writes: any non-empty subset of the common blocks; discards act
              \* on whole clusters: any non-empty set of the clusters they share
              cand_sets ==
                IF c.op = "discard"
                THEN { { b \in c.todo : b \div G.bpc \in CS } :
                       CS \in (SUBSET ClustersOf(ov)) \ {{}} }
                ELSE (SUBSET ov) \ {{}}
          IN
          /\ ov # {}
          /\ \E S \in cand_sets :
               /\ TRUE
               /\ \/ /\ cur' = ApplyCur(c, S, TRUE) /\ kind' = ApplyKind(c, S, TRUE)
                     /\ kf' = kf
                  \/ /\ DevDiscardApplies(c, S)
                     /\ cur' = DevDiscardCur(c, S) /\ kind' = DevDiscardKind(c, S)
                     /\ kf' = kf \cup {"C11-backing"}
               /\ calls' = SeeNew({ IF x.id = c.id THEN [x EXCEPT !.todo = x.todo \ S]
                                     ELSE x : x \in calls }, cur', S)
  /\ sil' = TRUE /\ NoRet
  /\ UNCHANGED <<l, ri, vis, dur, pend, fsn, rq, sync, cand, crashed, cimg>>

Ret ==
  /\ IsEv("Ret") /\ HasCall(Ev.id) /\ Consume
  /\ LET ev == Ev
         c  == CallById(ev.id)
         ok == ev.res = "ok"
     IN
     /\ \/ /\ c.op = "read"
           \* every returned block is a value the block held while the read
           \* was in flight  (C01 / C06)
           \* (concurrent runs: enabling condition = search over linearization
           \*  points; sequential runs: reported by Inv_C01 with the details)
           /\ (ok /\ R0.par = 1 /\ ~HasSub(Mode, "diag")) => \A i \in 1 .. Min(Len(ev.toks), Cardinality(c.blocks)) :
                      LET b == c.gb + i - 1 IN
                      b \in DOMAIN c.seen =>
                        (ev.toks[i] \in c.seen[b] \/ Unknown \in c.seen[b])
           /\ calls' = calls \ {c}
           /\ UNCHANGED <<cur, kind, kf>>
        \/ /\ Mutating(c.op)
           /\ \/ /\ cur' = ApplyCur(c, c.todo, ok) /\ kind' = ApplyKind(c, c.todo, ok)
                 /\ kf' = kf
              \/ /\ ok /\ DevDiscardApplies(c, c.todo)
                 /\ cur' = DevDiscardCur(c, c.todo) /\ kind' = DevDiscardKind(c, c.todo)
                 /\ kf' = kf \cup {"C11-backing"}
           /\ calls' = SeeNew(calls \ {c}, cur', c.todo)
        \/ /\ c.op \notin {"read", "write", "discard"}
           /\ calls' = calls \ {c}
           /\ UNCHANGED <<cur, kind, kf>>
     /\ IF c.op = "flush" /\ cand.st = "run" /\ cand.id = c.id
        THEN cand' = IF ok THEN [cand EXCEPT !.st = "ok"] ELSE NoCand
        ELSE cand' = cand
     /\ IF c.op = "fsync" /\ ok /\ c.pre /\ cand.st = "ok"
        THEN sync' = [have |-> TRUE,
                      val |-> [b \in GBs |->
                                 IF b \in DOMAIN cand.val THEN cand.val[b]
                                 ELSE IF sync.have THEN sync.val[b] ELSE {Unknown}],
                      later |-> [b \in GBs |->
                                 IF b \in DOMAIN cand.val THEN cand.since[b]
                                 ELSE IF sync.have THEN sync.later[b] ELSE {}]]
        ELSE sync' = sync
     /\ lastc' = [c EXCEPT !.pre_alloced = alloced]
     /\ alloced' = IF c.op = "alloc" /\ ok THEN alloced \cup Blocks(ev.c, ev.n)
                   ELSE IF c.op = "free" /\ ok THEN alloced \ Blocks(ev.c, ev.n)
                   ELSE alloced
  /\ UNCHANGED <<ri, vis, dur, pend, fsn, rq, crashed, cimg, cinfo, nf, ram>>

\* the device is dropped: whatever was not flushed is gone; from here on the
\* file alone determines the guest content (the specification's own reader)
Drop ==
  /\ IsEv("Drop") /\ Consume
  /\ calls = {}
  /\ cur' = [gb \in GBs |-> LET t == GuestVis(gb) IN IF t >= 0 THEN {t} ELSE {Unknown}]
  /\ kind' = [gc \in GCs |->
                LET k == F!EKind(F!L2E(vis, G, gc)) IN
                IF k = "u" /\ R0.back = 1 /\ \E b \in Blocks(gc * G.bpc, G.bpc) : R0.btok[b + 1] # 0
                THEN "b" ELSE k]
  /\ cand' = NoCand /\ lastc' = NoCall /\ cinfo' = cinfo /\ nf' = -1
  /\ ram' = NoRam /\ alloced' = {}
  /\ UNCHANGED <<ri, vis, dur, pend, fsn, rq, calls, sync, crashed, cimg, kf>>

SkipKinds == {"Open", "OpenRes", "Note", "FaultPlan", "FaultAll", "FaultsOff",
              "Recovered", "Stuck", "Panic", "MapAll", "Info"}
\* hook H1: the in-ram view of the metadata, as an overlay on the visible file
RamSample ==
  /\ IsEv("Ram") /\ Consume
  /\ ram' = [ok |-> Ev.complete = 1,
              img |-> [b \in 0 .. R0.maxb - 1 |->
                         IF Key(b) \in DOMAIN Ev.ov THEN Ev.ov[Key(b)]
                         ELSE IF b \in DOMAIN vis THEN vis[b] ELSE ZB]]
  /\ nf' = Ev.nf /\ lastc' = NoCall /\ cinfo' = cinfo /\ alloced' = alloced
  /\ UNCHANGED <<ri, vis, dur, pend, fsn, rq, cur, kind, calls, sync, cand, crashed, cimg, kf>>

\* the harness sampled need_flush_meta() (recorded when the value changes)
Flag ==
  /\ IsEv("Flag") /\ Consume
  /\ nf' = Ev.nf /\ lastc' = NoCall /\ cinfo' = cinfo /\ ram' = ram /\ alloced' = alloced
  /\ UNCHANGED <<ri, vis, dur, pend, fsn, rq, cur, kind, calls, sync, cand, crashed, cimg, kf>>
Skip ==
  /\ ~crashed /\ l <= N /\ Ev.e \in SkipKinds /\ Consume /\ NoRet
  /\ UNCHANGED <<ri, vis, dur, pend, fsn, rq, cur, kind, calls, sync, cand, crashed, cimg, kf>>

---------------------------------------------------------------------------
(* Crash: the host stops; every request issued and not yet made durable by *)
(* a completed fsync is, per block, persisted or lost.                      *)

\* <<i, b>> : block b of pending request i
PendPairs == UNION { { <<i, b>> : b \in Blocks(pend[i].blk, Len(pend[i].bl)) } :
                     i \in 1 .. Len(pend) }
IsMeta(v) == v[1] \in {"m", "h"}
\* clusters in which some candidate content is metadata
MetaClusters ==
  { p[2] \div G.bpc : p \in { q \in PendPairs :
       IsMeta(pend[q[1]].bl[q[2] - pend[q[1]].blk + 1]) \/ IsMeta(dur[q[2]]) } }
RelPairs == { p \in PendPairs : p[2] \div G.bpc \in MetaClusters }
IrrPairs == PendPairs \ RelPairs

ImageOf(T) ==
  [b \in DOMAIN dur |->
     LET is == { p[1] : p \in { q \in T : q[2] = b } } IN
     IF is = {} THEN dur[b]
     ELSE LET i == CHOOSE x \in is : \A y \in is : y <= x IN
          pend[i].bl[b - pend[i].blk + 1]]

SmallSubsets(S) == {{}} \cup { {x} : x \in S } \cup { {x, y} : x, y \in S }
CrashSets ==
  IF Cardinality(RelPairs) <= 10 THEN SUBSET RelPairs
  ELSE SmallSubsets(RelPairs) \cup { RelPairs \ s : s \in SmallSubsets(RelPairs) }

CrashPoint ==
  /\ CrashOn /\ ~crashed /\ l <= N /\ R0.lenient = 0
  /\ \/ Ev.e \in {"End", "Drop"}
     \/ Ev.e = "Done" /\ ReqById(Ev.id).k = "S" /\ ReqById(Ev.id).dev = 0 /\ Ev.res = "ok"

Crash ==
  /\ CrashPoint
  /\ \E T \in CrashSets : \E keep \in {TRUE, FALSE} :
       /\ cimg' = ImageOf(T \cup (IF keep THEN IrrPairs ELSE {}))
       /\ cinfo' = [line |-> l, keep |-> keep,
                    persisted |-> { <<pend[p[1]].id, p[2]>> : p \in T }]
  /\ crashed' = TRUE /\ sil' = TRUE
  \* canonical terminal state: equal images are checked once
  /\ l' = 0 /\ pend' = <<>> /\ fsn' = {} /\ rq' = {} /\ calls' = {}
  /\ cand' = NoCand /\ vis' = <<>> /\ dur' = <<>> /\ lastc' = NoCall /\ nf' = nf
  /\ ram' = NoRam /\ alloced' = alloced
  /\ UNCHANGED <<ri, cur, kind, sync, kf>>



---------------------------------------------------------------------------
(* The properties, as state predicates.  "Last" is the line just consumed. *)
Last == Rec[l - 1]
Fresh == ~crashed /\ ~sil /\ l > ri + 1      \* a line was just consumed

\* C02 / C03 are evaluated in the state right after a successful flush_meta
\* that ran alone (no other call in flight during it)
FlushedNow == Fresh /\ Last.e = "Ret" /\ Last.res = "ok" /\ cand.st = "ok"
              /\ cand.id = Last.id /\ cand.alone /\ calls = {}

Inv_C02 == FlushedNow =>
  \A gb \in GBs : GuestVis(gb) \in cur[gb] \/ Unknown \in cur[gb]

\* a backend fault was injected earlier in this run (then leaks are allowed)
HadFault == \E i \in ri .. l - 1 : Rec[i].e = "Done" /\ Rec[i].inj = 1

\* the device was dropped with operations not yet followed by a successful
\* flush_meta (what the documentation calls losing the unflushed state): the
\* next device starts from an image that may carry leaked clusters, as after
\* a crash
UncleanDrop == \E i \in ri .. l - 1 : Rec[i].e = "Drop" /\ Rec[i].unflushed > 0

\* (an image that starts with leaked clusters - builder option, or an L1 table with room behind the
\*  entries its header lists - cannot become exact: it must not get worse)
Inv_C03 == (FlushedNow /\ ~HadFault /\ ~UncleanDrop) =>
             /\ F!WellFormed(vis, G)
             /\ IF R0.leaks = 0 THEN F!Exact(vis, G)
                ELSE F!Undercounted(vis, G) = {} /\ Cardinality(F!Leaked(vis, G)) <= R0.leaks
\* ... but never an unusable one
Inv_C03u == (FlushedNow /\ ~HadFault /\ UncleanDrop) => F!Safe(vis, G)

\* C17b: after faults, a flush_meta that returns Ok leaves a file in which
\* every acknowledged write is readable and nothing is under-counted
Inv_C17 == (FlushedNow /\ HadFault) =>
  /\ F!Safe(vis, G)
  /\ \A gb \in GBs : GuestVis(gb) \in cur[gb] \/ Unknown \in cur[gb]

\* C18: need_flush_meta() = false at a quiescent point means the file already
\* reflects every completed operation
Quiescent == Fresh /\ calls = {} /\ rq = {}
\* (evaluated where the file or the model can have changed: the flag was just
\*  sampled clear, or a call other than a read has just returned)
\* (the flag is recorded when it changes, after the event that changed it: when a call returns and a Flag
\*  event follows at once, the value that counts is the one of that event - a failed flush_meta sets the flag
\*  again just before it returns)
FlagFollows == l <= Len(Rec) /\ Rec[l].e = "Flag"
Inv_C18 == (Quiescent /\ nf = 0
            /\ (Last.e = "Flag" \/ (Last.e = "Ret" /\ lastc.id = Last.id /\ lastc.op # "read" /\ ~FlagFollows))) =>
  /\ \A gb \in GBs : GuestVis(gb) \in cur[gb] \/ Unknown \in cur[gb]
  /\ F!TablesOK(vis, G) /\ F!Undercounted(vis, G) = {}

\* C04: every crash state is a safe image
Inv_C04 == crashed => F!Safe(cimg, G)

\* C05: synced data survives
Inv_C05 == (crashed /\ sync.have) =>
  \A gb \in GBs :
     \/ Unknown \in sync.val[gb]
     \/ GuestCrash(gb) \in sync.val[gb] \cup sync.later[gb]

\* C10: a read-only device (every backing image; a top image opened
\* read-only) only ever receives reads
Inv_C10 == (Fresh /\ Last.e = "Req") =>
  (R0.devs[Last.dev + 1].ro = 1 => Last.k = "R")

\* C16: alignment of every backend request
Inv_C16 == (Fresh /\ Last.e = "Req") => Last.al = <<0, 0, 0>>

\* C07a: no deadlock / livelock / panic
Inv_C07a == (Fresh /\ Last.e \in {"Stuck", "Panic"}) => FALSE
Inv_Open == (Fresh /\ Last.e = "OpenRes") => Last.res = "ok"

\* C09: get_mapping() agrees with the specification's reading of the image
\* (evaluated when the device has just been opened: file = device state)
MapOf(gc) ==
  LET e == F!L2E(vis, G, gc)
      k == F!EKind(e)
  IN IF k = "d" THEN [k |-> "d", c |-> e.c, s |-> 0, len |-> 0]
     ELSE IF k \in {"z", "zp"} THEN [k |-> "z", c |-> -1, s |-> 0, len |-> 0]
     ELSE IF k = "c" THEN [k |-> "c", c |-> e.cc, s |-> e.cs * 512 + e.cbo,
                           len |-> (e.ns + 1) * 512 - e.cbo]
     ELSE [k |-> IF R0.back = 1 THEN "b" ELSE "u", c |-> -1, s |-> 0, len |-> 0]
MapBad ==
  { gc \in GCs :
      LET m == Last.m[gc + 1]
          x == MapOf(gc)
      IN ~(m.k = x.k /\ (x.c >= 0 => m.c = x.c) /\ m.s = x.s /\ m.len = x.len) }
Inv_C09map == (Fresh /\ Last.e = "MapAll") => MapBad = {}

\* C09: the derived geometry matches the specification's formulas
InfoBad ==
  LET i == Last.i
      x == Geo!Expected(G.cb, G.ro, G.bsb, Last.l2sb, Last.rbsb, Last.l2cnt, Last.rbcnt, G.vszb)
  IN { f \in DOMAIN x : i[f] # x[f] }
     \cup (IF Geo!CacheCountOK(i.l2_cache_cnt, Last.l2cnt) THEN {} ELSE {"l2_cache_cnt"})
     \cup (IF Geo!CacheCountOK(i.rb_cache_cnt, Last.rbcnt) THEN {} ELSE {"rb_cache_cnt"})
Inv_C09info == (Fresh /\ Last.e = "Info") => InfoBad = {}

\* C09: what the library formats is a valid image under the specification
Inv_C09fmt == (l = ri + 1 /\ ~crashed /\ R0.src = "format") =>
  /\ R0.fmtfail = ""
  /\ F!WellFormed(vis, G) /\ F!Exact(vis, G)
  /\ \A gb \in GBs : GuestVis(gb) = 0

\* C08: in the in-ram view every host cluster has at most one owner, no
\* cluster is referenced more often than its refcount says, and what the
\* allocator handed out (through the hook) belongs to nobody else
RamNow == Fresh /\ Last.e = "Ram" /\ ram.ok
Inv_C08 == RamNow =>
  /\ F!TablesOK(ram.img, G)
  /\ LET RS == F!RefSet(ram.img, G) IN
     /\ F!NoDoubleRef(RS)
     /\ F!Undercounted(ram.img, G) = {}
     /\ \A c \in alloced : F!Refs(RS, c) = 0 /\ F!StoredRc(ram.img, G, c) >= 1
C08Detail ==
  IF ~F!TablesOK(ram.img, G) THEN <<"tables">>
  ELSE LET RS == F!RefSet(ram.img, G) IN
       <<"dbl", { r \in RS : \E r2 \in RS : r2 # r /\ r2[3] = r[3] /\ ~(r[1] = 6 /\ r2[1] = 6) },
         "under", F!Undercounted(ram.img, G),
         "alloced", { c \in alloced : F!Refs(RS, c) # 0 \/ F!StoredRc(ram.img, G, c) < 1 }>>

\* C08: what an allocation returns: a contiguous run, not longer than
\* requested, cluster aligned, of clusters that were free (refcount 0 and
\* unreferenced in the in-ram view when the call started) and that nobody
\* else has been given
AllocNow == Fresh /\ Last.e = "Ret" /\ lastc.id = Last.id /\ lastc.op = "alloc" /\ Last.res = "ok"
Inv_C08alloc == AllocNow =>
  /\ Last.ua = 0 /\ Last.n >= 1 /\ Last.n <= lastc.n
  /\ Blocks(Last.c, Last.n) \cap lastc.pre_alloced = {}
  /\ lastc.ram0.ok =>
       LET RS == F!RefSet(lastc.ram0.img, G) IN
       \A c \in Blocks(Last.c, Last.n) :
          F!StoredRc(lastc.ram0.img, G, c) = 0 /\ F!Refs(RS, c) = 0

\* C08: freed clusters are reused: the host file stays below the bound the
\* scenario states for its working set
\* (evaluated in the last state of the run, whose next line is End)
Inv_C08bound == (~crashed /\ l <= N /\ Ev.e = "End" /\ R0.bound > 0) => Ev.flen[1] <= R0.bound

\* C13 / C07b / C17a: the result of the call that has just returned
RetNow == Fresh /\ Last.e = "Ret" /\ lastc.id = Last.id

\* C01: a read returns, for every block, a value of the flat reference disk
ReadBad ==
  { i \in 1 .. Min(Len(Last.toks), Cardinality(lastc.blocks)) :
      LET b == lastc.gb + i - 1 IN
      b \in DOMAIN lastc.seen /\ ~(Last.toks[i] \in lastc.seen[b] \/ Unknown \in lastc.seen[b]) }
Inv_C01 == (RetNow /\ lastc.op = "read" /\ Last.res = "ok") => ReadBad = {}
C01Detail == { <<lastc.gb + i - 1, Last.toks[i], lastc.seen[lastc.gb + i - 1]>> : i \in ReadBad }
RetAdmissible ==
  LET c == lastc IN
  IF c.op = "write" THEN Last.res \in ExpectWrite(c.cls, c.n)
  ELSE IF c.op = "read" THEN <<Last.res, IF Last.res = "ok" THEN Last.n ELSE 0>> \in ExpectRead(c.cls, c.n)
  ELSE IF c.op = "discard" THEN Last.res \in ExpectDiscard(c.cls)
  ELSE Last.res = "ok"
ArgsValid(c) ==
  IF c.op = "write" THEN WriteValid(c.cls) \/ (c.cls.lz = 1 /\ c.cls.ro = 0 /\ c.cls.oa = 1 /\ c.cls.end = "le")
  ELSE IF c.op = "read" THEN c.cls.pos = "lt" /\ (c.cls.lz = 1 \/ (c.cls.oa = 1 /\ c.cls.la = 1))
  ELSE IF c.op = "discard" THEN c.cls.ro = 0
  ELSE TRUE
\* bad arguments are rejected, without a modifying request (C13)
Inv_C13 == (RetNow /\ ~ArgsValid(lastc)) =>
             /\ RetAdmissible
             /\ ~lastc.modreq
\* boundary cases return as documented (C13, valid side of the table)
Inv_C13b == (RetNow /\ ArgsValid(lastc) /\ ~lastc.faulted) =>
             (Last.res = "ok" => RetAdmissible)
\* C01: an in-bounds block-aligned read returns the full requested length
FullRead == lastc.op = "read" /\ ReadValid(lastc.cls) /\ lastc.cls.end = "le"
Inv_C01len == (RetNow /\ FullRead /\ ~lastc.faulted /\ Last.res = "ok") => Last.n = lastc.n
\* a call with valid arguments fails only because of a backend error (C07)
Inv_C07b == (RetNow /\ ArgsValid(lastc) /\ ~lastc.faulted /\ lastc.op # "check") => Last.res = "ok"
\* C20: check() accepts every consistent image and reports every leak
Inv_C20 == (RetNow /\ lastc.op = "check" /\ lastc.clean /\ ~lastc.faulted /\ F!TablesOK(vis, G)) =>
             (Last.res = "ok" <=> (F!Leaked(vis, G) = {} /\ F!Undercounted(vis, G) = {}))

---------------------------------------------------------------------------
(* Audit: evaluates every property on every distinct state, reports        *)
(* without stopping (so one run's violation does not hide another's), and  *)
(* keeps the furthest line each run reached.                                *)
Out(x) == PrintT("@@" \o ToJson(x))
Report(prop, detail) == Out(<<"VIOL", prop, R0.name, ri, l - 1, detail>>)

BadBlocks == { gb \in GBs : ~(GuestVis(gb) \in cur[gb] \/ Unknown \in cur[gb]) }
C03Detail ==
  IF ~F!TablesOK(vis, G) THEN <<"tables">>
  ELSE <<"under", F!Undercounted(vis, G), "leaked", F!Leaked(vis, G),
         "dbl", ~F!NoDoubleRef(F!RefSet(vis, G)), "wf", F!WellFormed(vis, G)>>
\* for every under-counted cluster: who references it in the crash image
\* <<cluster, stored, { <<tag, index, flat kind, kind in the image>> }>>
C04Detail ==
  IF ~F!TablesOK(cimg, G) THEN <<"tables", cinfo>>
  ELSE LET RS == F!RefSet(cimg, G) IN
       <<"under",
         { <<c, F!StoredRc(cimg, G, c),
             { <<r[1], r[2],
                 IF r[1] = 5 /\ r[2] \in GCs THEN kind[r[2]] ELSE "-",
                 IF r[1] = 5 THEN F!EKind(F!L2E(cimg, G, r[2])) ELSE "-">> :
               r \in { x \in RS : x[3] = c } }>> : c \in F!Undercounted(cimg, G) },
         cinfo>>
C05Bad == { gb \in GBs : ~(Unknown \in sync.val[gb]
                           \/ GuestCrash(gb) \in sync.val[gb] \cup sync.later[gb]) }

\* the independently built initial image must be valid under the spec and
\* read back as the builder's ground truth: otherwise builder, decoder and
\* specification disagree - a tool error, never a violation
InitialOK ==
  (l = ri + 1 /\ ~crashed /\ R0.src = "build" /\ R0.lenient = 0) =>
     /\ F!WellFormed(vis, G)
     /\ F!Undercounted(vis, G) = {} /\ Cardinality(F!Leaked(vis, G)) = R0.leaks
     /\ \A gb \in GBs : GuestVis(gb) = R0.init[gb + 1]

\* violations found in the state just reached; they are accumulated along the
\* path (viol) and reported with the ACCEPT line of the run, because in a run
\* with concurrent calls a path is only one guess at the linearization order:
\* what counts is an accepting path
\* C14: malformed images - nothing may panic or hang, and images using
\* unsupported features must be refused (spec/HeaderAccept.tla decided which)
Lenient == R0.lenient = 1
Inv_C14open == (Fresh /\ Last.e = "OpenRes") =>
                 (Last.res # "panic" /\ (R0.refuse = 1 => Last.res = "err"))
Inv_C14run == (Fresh /\ Last.e \in {"Panic", "Stuck"}) => FALSE
LenientViols ==
  (IF Inv_C14open THEN <<>> ELSE << <<"C14", l - 1, <<"open", Last.res, Last.msg, R0.mal, R0.refuse>>>> >>)
  \o (IF Inv_C14run THEN <<>> ELSE << <<"C14", l - 1, <<Last.e, Last.msg, R0.mal>>>> >>)

StrictViols ==
  (IF Inv_C01 THEN <<>> ELSE << <<"C01", l - 1, C01Detail>> >>)
  \o (IF Inv_C02 THEN <<>> ELSE << <<"C02", l - 1, <<"blocks", BadBlocks>>>> >>)
  \o (IF Inv_C03 /\ Inv_C03u THEN <<>> ELSE << <<"C03", l - 1, C03Detail>> >>)
  \o (IF Inv_C17 THEN <<>> ELSE << <<"C17", l - 1, <<"after-recovery", IF F!TablesOK(vis, G) THEN F!Undercounted(vis, G) ELSE {-1}, BadBlocks>>>> >>)
  \o (IF Inv_C18 THEN <<>> ELSE << <<"C18", l - 1, <<"flag clear but file stale", BadBlocks, IF F!TablesOK(vis, G) THEN F!Undercounted(vis, G) ELSE {-1}>>>> >>)
  \o (IF Inv_C10 THEN <<>> ELSE << <<"C10", l - 1, <<Last.dev, Last.k, Last.blk>>>> >>)
  \o (IF Inv_C16 THEN <<>> ELSE << <<"C16", l - 1, <<Last.k, Last.blk, Last.al>>>> >>)
  \o (IF Inv_C07a THEN <<>> ELSE << <<"C07", l - 1, <<Last.e, Last.msg>>>> >>)
  \o (IF Inv_Open THEN <<>> ELSE << <<"OPEN", l - 1, <<Last.res, Last.msg>>>> >>)
  \o (IF Inv_C13 THEN <<>> ELSE << <<"C13", l - 1, <<lastc.op, Last.res, lastc.cls, lastc.modreq>>>> >>)
  \o (IF (Inv_C13b \/ FullRead) THEN <<>> ELSE << <<"C13", l - 1, <<lastc.op, Last.res, Last.n, lastc.cls>>>> >>)
  \o (IF Inv_C01len THEN <<>> ELSE << <<"C01", l - 1, <<"short read", lastc.gb, lastc.n, Last.n>>>> >>)
  \o (IF Inv_C07b THEN <<>> ELSE << <<"C07", l - 1, <<lastc.op, Last.res, Last.msg>>>> >>)
  \o (IF Inv_C08 THEN <<>> ELSE << <<"C08", l - 1, C08Detail>> >>)
  \o (IF Inv_C08alloc THEN <<>> ELSE << <<"C08", l - 1, <<"alloc", lastc.n, Last.c, Last.n, Last.ua,
                                                         Blocks(Last.c, Last.n) \cap lastc.pre_alloced>>>> >>)
  \o (IF Inv_C08bound THEN <<>> ELSE << <<"C08", l - 1, <<"file grew", Ev.flen, R0.bound>>>> >>)
  \o (IF Inv_C09map THEN <<>> ELSE << <<"C09", l - 1, <<"get_mapping", { <<gc, Last.m[gc + 1], MapOf(gc)>> : gc \in MapBad }>>>> >>)
  \o (IF Inv_C09info THEN <<>> ELSE << <<"C09", l - 1, <<"geometry", InfoBad>>>> >>)
  \o (IF Inv_C09fmt THEN <<>> ELSE << <<"C09", l, <<"formatted image invalid", R0.fmtfail, IF R0.fmtfail = "" THEN C03Detail ELSE <<>>>>>> >>)
  \o (IF Inv_C20 THEN <<>> ELSE << <<"C20", l - 1, <<"check", Last.res, F!Leaked(vis, G), F!Undercounted(vis, G)>>>> >>)

StepViols == IF Lenient THEN LenientViols ELSE StrictViols

\* Audit (a CONSTRAINT, evaluated once per distinct state): progress
\* registers, the tool self-check, and the crash-image properties, which are
\* reported at once (a crash state is terminal)
Audit ==
  /\ TLCSet(ri, Max(TLCGet(ri), IF crashed THEN 0 ELSE l))
  /\ ~InitialOK => Out(<<"TOOLERR", R0.name, ri, "initial image: builder/decoder/spec disagree",
                          IF F!TablesOK(vis, G) THEN <<F!Undercounted(vis, G), F!Leaked(vis, G)>> ELSE <<"tables">>,
                          { gb \in GBs : GuestVis(gb) # R0.init[gb + 1] }>>)
  /\ ~Inv_C04 => Report("C04", C04Detail)
  /\ ~Inv_C05 => Report("C05", <<"blocks", { <<gb, GuestCrash(gb), sync.val[gb], sync.later[gb]>> : gb \in C05Bad }, cinfo>>)
  /\ crashed => TLCSet(999999, TLCGet(999999) + 1)
  \* crash images on which Inv_C05 says something: a sync point exists and
  \* some synced block holds data
  /\ (crashed /\ sync.have /\ \E gb \in GBs : sync.val[gb] \notin {{0}, {Unknown}})
       => TLCSet(999998, TLCGet(999998) + 1)

\* the run is over: report the accepting path
End ==
  /\ IsEv("End") /\ Consume
  /\ PrintT("@@" \o ToJson(<<"ACCEPT", R0.name, ri, kf, viol \o StepViols>>)) /\ NoRet
  /\ UNCHANGED <<ri, vis, dur, pend, fsn, rq, cur, kind, calls, sync, cand, crashed, cimg, kf>>


Step == Req \/ Done \/ Call \/ LinOther \/ Ret \/ Drop \/ Skip \/ Flag \/ RamSample \/ End \/ Crash

\* (the violations of the state being left are appended: evaluating StepViols
\*  on the current state keeps TLC's caching of the trace constants effective)
Next == Step /\ viol' = viol \o StepViols

Spec == Init /\ [][Next]_vars

\* registers: furthest line per run, number of distinct crash images
ASSUME \A i \in RunStarts : TLCSet(i, i)
ASSUME TLCSet(999999, 0)
ASSUME TLCSet(999998, 0)

Finished ==
  /\ \A i \in RunStarts : Out(<<"REACHED", Rec[i].name, i, TLCGet(i)>>)
  /\ Out(<<"CRASHIMAGES", TLCGet(999999)>>)
  /\ Out(<<"SYNCEDCRASH", TLCGet(999998)>>)

=============================================================================
