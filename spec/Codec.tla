------------------------------- MODULE Codec -------------------------------
(* C15: the qcow2 codecs, transcribed from the specification and used as a  *)
(* test-vector generator: TLC enumerates the (finite, boundary-biased)      *)
(* domains and prints one vector per case WITH the expected result; the     *)
(* harness runs the library's public meta API on each vector and compares.  *)
(* 64-bit quantities are kept symbolic: a host offset is                    *)
(*   <<k, d, inoff>>  =  (2^k * [k >= 0] + d) * cluster_size + inoff        *)
(* so that everything TLC computes fits its 32-bit integers.                *)
EXTENDS Integers, Sequences, FiniteSets, TLC, Json

CBs == {9, 10, 12, 16, 21}
Pow2(n) == 2 ^ n

---------------------------------------------------------------------------
(* L2 entries (qcow2 spec "L2 table entry" / cluster descriptors) *)

\* cluster index classes: none (0), small, high bits (up to bit 55 of the offset)
IdxClasses(cb) == { <<-1, 0>>, <<-1, 1>>, <<-1, 5>>, <<20 - 9, 0>>, <<31 - cb + 9, 1>>, <<55 - cb, 0>>, <<54 - cb, 3>> }

StdVectors ==
  UNION { { [t |-> "l2std", cb |-> cb, copied |-> cp, zero |-> z, idx |-> ix,
             \* expected decode
             kind |-> IF z = 1 THEN "zero" ELSE IF ix = <<-1, 0>> THEN "unalloc" ELSE "data",
             alloc |-> IF ix = <<-1, 0>> THEN 0 ELSE 1,
             expcopied |-> IF ix = <<-1, 0>> THEN 0 ELSE cp,
             \* an unallocated entry may not carry the COPIED flag without an external data file
             valid |-> ~(ix = <<-1, 0>> /\ cp = 1)]
            : cp \in {0, 1}, z \in {0, 1}, ix \in IdxClasses(cb) } : cb \in CBs }

\* compressed descriptor: x = 62 - (cluster_bits - 8) offset bits, the rest
\* is the number of additional 512-byte sectors
CompVectors ==
  { [t |-> "l2comp", cb |-> cb, idx |-> ix, inoff |-> io, ns |-> ns,
     kind |-> "comp",
     \* bytes available to the decompressor
     len |-> (ns + 1) * 512 - (io % 512),
     \* host clusters the compressed sectors touch
     nclusters |-> ((io % Pow2(cb)) - (io % 512) + (ns + 1) * 512 - 1) \div Pow2(cb) + 1]
    : cb \in CBs, ix \in {<<-1, 1>>, <<-1, 7>>, <<30, 2>>},
      io \in {0, 1, 511, 512, 700}, ns \in {0, 1} }

\* entries with reserved bits set must be rejected by try_from_plain
ResvVectors ==
  { [t |-> "l2resv", cb |-> cb, bit |-> b, comp |-> 0] : cb \in {9, 16}, b \in {1, 5, 8, 56, 61} }

---------------------------------------------------------------------------
(* Refcount blocks: width 2^order bits, big-endian words, sub-byte entries *)
(* packed LSB first                                                        *)

Orders == 0 .. 6
Bits(o) == Pow2(o)
\* value classes per width; "max" = all ones
ValClasses == {"zero", "one", "max", "maxm1"}
\* value as big-endian byte list (for widths >= 8) or small integer (< 8 bits)
BytesOf(o, v) ==
  LET nb == Bits(o) \div 8 IN
  IF v = "zero" THEN [i \in 1 .. nb |-> 0]
  ELSE IF v = "one" THEN [i \in 1 .. nb |-> IF i = nb THEN 1 ELSE 0]
  ELSE IF v = "max" THEN [i \in 1 .. nb |-> 255]
  ELSE [i \in 1 .. nb |-> IF i = nb THEN 254 ELSE 255]
SmallOf(o, v) ==
  IF v = "zero" THEN 0 ELSE IF v = "one" THEN 1
  ELSE IF v = "max" THEN Pow2(Bits(o)) - 1 ELSE Pow2(Bits(o)) - 2

\* expected bytes of a block of n entries where entry at holds v and all
\* others hold background bg
EntryVal(o, i, at, v, bg) == IF i = at THEN v ELSE bg
PackSub(o, n, at, v, bg) ==
  LET per == 8 \div Bits(o)
      E(i) == SmallOf(o, EntryVal(o, i, at, v, bg))
      \* LSB first: entry base+k sits at bit position k * width
      ByteVal(base) ==
        IF per = 8 THEN E(base) + 2 * E(base + 1) + 4 * E(base + 2) + 8 * E(base + 3)
                        + 16 * E(base + 4) + 32 * E(base + 5) + 64 * E(base + 6) + 128 * E(base + 7)
        ELSE IF per = 4 THEN E(base) + 4 * E(base + 1) + 16 * E(base + 2) + 64 * E(base + 3)
        ELSE E(base) + 16 * E(base + 1)
  IN [b \in 1 .. (n \div per) |-> ByteVal((b - 1) * per)]
PackWide(o, n, at, v, bg) ==
  LET nb == Bits(o) \div 8 IN
  [b \in 1 .. n * nb |->
     LET i == (b - 1) \div nb
         j == ((b - 1) % nb) + 1
     IN BytesOf(o, EntryVal(o, i, at, v, bg))[j]]
Pack(o, n, at, v, bg) == IF o < 3 THEN PackSub(o, n, at, v, bg) ELSE PackWide(o, n, at, v, bg)

RcN == 16     \* entries of the test window (the harness places it at the start, middle and end of a slice)
RefVectors ==
  { [t |-> "refcount", order |-> o, n |-> RcN, at |-> at, v |-> v, bg |-> bg,
     bytes |-> Pack(o, RcN, at, v, bg)]
    : o \in Orders, at \in {0, 1, 7, 8, RcN - 1}, v \in ValClasses, bg \in {"zero", "max"} }

---------------------------------------------------------------------------
(* Address split: offset = ((l1 * l2n + l2) * cluster_size) + inoff *)
SplitVectors ==
  { [t |-> "split", cb |-> cb, sb |-> sb, l1 |-> l1, l2 |-> l2, inoff |-> io,
     \* expected indices (qcow2 spec: l2_entries = cluster_size / 8)
     l1_index |-> l1, l2_index |-> l2,
     slice_index |-> l2 % Pow2(sb - 3),
     slice_key_lo |-> ((l1 % 1024) * Pow2(cb - 3) + l2) \div Pow2(sb - 3),
     slice_off |-> (l2 \div Pow2(sb - 3)) * Pow2(sb),
     in_cluster |-> io]
    : cb \in {9, 12, 16}, sb \in {9, 12}, l1 \in {0, 1, 63, 64, 1000},
      l2 \in {0, 1, 62, 63}, io \in {0, 1, 511} }
SplitOK(v) == v.sb <= v.cb /\ v.l2 < Pow2(v.cb - 3) /\ v.inoff < Pow2(v.cb)

---------------------------------------------------------------------------
(* Header: fields, extensions (known, unknown, odd lengths) and backing    *)
(* file name must survive parse -> serialise -> parse                      *)
\* ("featmax": a feature name that fills its 46 bytes, no terminator)
ExtKinds == {"fmt", "feat1", "feat3", "featmax", "unk0", "unk5", "unk8", "unk13"}
ExtLists == {<<>>} \cup { <<a>> : a \in ExtKinds } \cup { <<a, b>> : a \in ExtKinds, b \in ExtKinds }
HeaderVectors ==
  { [t |-> "header", cb |-> cb, ro |-> ro, exts |-> el, backing |-> bk]
    : cb \in {9, 16}, ro \in {0, 4, 6}, el \in ExtLists, bk \in {0, 1, 30} }

Vectors == HeaderVectors \cup StdVectors \cup CompVectors \cup ResvVectors \cup RefVectors
           \cup { v \in SplitVectors : SplitOK(v) }
ASSUME \A v \in Vectors : PrintT("@@" \o ToJson(v))
=============================================================================
