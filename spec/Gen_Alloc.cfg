CONSTANTS E = 64 NS = 2 NRB = 3
SPECIFICATION Spec
INVARIANT ContractHolds
INVARIANT Emit
CHECK_DEADLOCK FALSE
