CONSTANTS E = 4 NS = 2 NRB = 2
SPECIFICATION Spec
INVARIANT ContractHolds
CHECK_DEADLOCK FALSE
