CONSTANTS RuleMutex = TRUE RuleRcFirst = TRUE RuleBarrier = FALSE RuleUnmapFirst = TRUE
SPECIFICATION Spec
INVARIANT CrashSafe
CHECK_DEADLOCK FALSE
CONSTANT defaultInitValue = defaultInitValue
