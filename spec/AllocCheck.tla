----------------------------- MODULE AllocCheck -----------------------------
(* Implementation -> specification direction of the allocator binding.      *)
(* The real allocator was run on the states of Gen_Alloc.tla; its outcomes  *)
(* (IOEnv.OUTCOMES, one JSON record per line) are judged here against the   *)
(* allocator's CONTRACT, not against the model's choice of cluster: an      *)
(* allocator that picks another free run, or searches in another order, is  *)
(* as good.  (Equality with the model's own result is reported separately   *)
(* as conformance information and never decides the exit status.)           *)
EXTENDS Integers, Sequences, FiniteSets, TLC, Json, IOUtils

CONSTANTS E, NS, NRB
RBN == E * NS
N   == RBN * NRB

Out == ndJsonDeserialize(IOEnv.OUTCOMES)

ToSet(s) == { s[i] : i \in 1 .. Len(s) }

\* first clusters of the refblocks that did not exist before the call: the
\* only clusters besides the run whose refcount may have gone up (a new
\* refblock references itself), and never part of a run that is handed out
NewRbStarts(o) == { k * RBN : k \in { j \in 0 .. NRB - 1 : ~(j = 0 \/ (j = 1 /\ o.rb1)) } }

Bad(o) ==
  LET used  == ToSet(o.used)
      after == ToSet(o.used_after)
      freed == ToSet(o.used_freed)
      run   == IF o.res[1] < 0 THEN {} ELSE o.res[1] .. (o.res[1] + o.res[2] - 1)
      nrb   == (after \ used) \ run
  IN
  (IF o.panic = 1 THEN {"the allocator panicked or hung"} ELSE {})
  \cup (IF o.res[1] >= 0 /\ ~(o.res[2] >= 1 /\ o.res[2] <= o.count) THEN {"run length outside 1..count"} ELSE {})
  \cup (IF run \cap used # {} THEN {"handed out a cluster that was in use"} ELSE {})
  \cup (IF run \cap NewRbStarts(o) # {} THEN {"handed out the place of a refcount block"} ELSE {})
  \cup (IF \E c \in run : c < 0 \/ c >= N THEN {"run outside the covered range"} ELSE {})
  \cup (IF ~(used \subseteq after) THEN {"a refcount dropped during an allocation"} ELSE {})
  \cup (IF ~(run \subseteq after) THEN {"refcount of a handed-out cluster not raised"} ELSE {})
  \cup (IF ~(nrb \subseteq NewRbStarts(o)) THEN {"refcount of an unrelated cluster raised (leak)"} ELSE {})
  \cup (IF ToSet(o.multi) # {} THEN {"a refcount above 1"} ELSE {})
  \cup (IF o.res[1] >= 0 /\ freed # after \ run THEN {"free_clusters of the run did not give back exactly the run"} ELSE {})

ASSUME \A i \in 1 .. Len(Out) :
         Bad(Out[i]) = {} \/ PrintT("@@" \o ToJson([i |-> i, bad |-> Bad(Out[i])]))
ASSUME PrintT("@@" \o ToJson([i |-> 0, bad |-> {}, n |-> Len(Out)]))
=============================================================================
