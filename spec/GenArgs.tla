------------------------------ MODULE GenArgs ------------------------------
(* C13: the argument-class space of read_at / write_at / discard.  TLC     *)
(* enumerates the product and prints one abstract case per line; the      *)
(* driver instantiates every class with concrete u64 values for each      *)
(* geometry (several representatives per class) and the harness runs them.*)
(* The expected outcome of each case is decided by Validate.tla during    *)
(* trace validation, from the classes the harness measured with 128-bit   *)
(* arithmetic.                                                            *)
EXTENDS Integers, Sequences, TLC, Json

Ops == {"read", "write", "discard"}
\* offset classes relative to block size bs, cluster size cs, virtual size vs
OffClasses == {"zero", "one_block", "unaligned_small", "unaligned_mid", "cluster_start",
               "cluster_minus_block", "last_block", "end_minus_1", "end", "end_plus_1",
               "end_plus_block", "huge", "max_minus_block", "max_minus_1", "max"}
LenClasses == {"zero", "one", "block_minus_1", "block", "block_plus_1", "two_blocks",
               "to_cluster_end", "cluster", "cluster_plus_block", "to_end", "to_end_plus_block",
               "big", "max"}
\* only discard takes a u64 length; buffers cannot be that large
LenOK(op, lc) == lc = "max" => op = "discard"
Cases == { <<op, oc, lc>> \in Ops \X OffClasses \X LenClasses : LenOK(op, lc) }

ASSUME \A c \in Cases : PrintT("@@" \o ToJson(c))
=============================================================================
