---------------------------- MODULE GenMalformed ----------------------------
(* generator: prints every single mutation and, in thorough mode, every    *)
(* pair of mutations on two different fields, with the refusal verdict     *)
EXTENDS HeaderAccept, IOUtils

Thorough == "PAIRS" \in DOMAIN IOEnv /\ IOEnv.PAIRS = "1"
Cases == Singles \cup (IF Thorough THEN Pairs ELSE {})
ASSUME \A ms \in Cases : PrintT("@@" \o ToJson([m |-> ms, refuse |-> MustRefuse(ms)]))
=============================================================================
