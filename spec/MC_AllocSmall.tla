--------------------------- MODULE MC_AllocSmall ---------------------------
(* exhaustive check of the allocator contract on a tiny geometry: every     *)
(* refcount pattern of 16 clusters (2 refblocks x 2 slices x 4 refcounts),  *)
(* the second refblock present or not, a set of hints, requests 1..5        *)
EXTENDS Alloc

VARIABLES rc, rt, hint, count
vars == <<rc, rt, hint, count>>

Pattern(S) == [c \in Clusters |-> IF c \in S \/ c < 2 THEN 1 ELSE 0]
Init ==
  /\ \E S \in SUBSET (2 .. N - 1), second \in BOOLEAN :
       /\ (~second => S \cap (RBN .. N - 1) = {})
       /\ (second => RBN \in S)           \* an existing refblock references itself
       /\ rc = Pattern(S)
       /\ rt = [i \in 0 .. NRB - 1 |-> i = 0 \/ second]
  /\ hint \in {0, 2, 5, 7, 8, 12}
  /\ count \in {1, 2, 3, 5}
Next == UNCHANGED vars
Spec == Init /\ [][Next]_vars

ContractHolds == Contract(rc, rt, hint, count)
=============================================================================
