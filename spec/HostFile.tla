----------------------------- MODULE HostFile -----------------------------
(* C19: the reference host-file model every check runs against (SimFile in  *)
(* the harness implements exactly this), as a state machine over blocks:    *)
(*   write  extends the file and stores the blocks                          *)
(*   read   is short at end of file (returns the blocks that exist)         *)
(*   punch  zeroes what exists and keeps the length                         *)
(*   fsync  changes nothing that is visible                                 *)
(* Used as a generator: TLC enumerates every request sequence up to Depth   *)
(* over a small block range and prints it with the expected result of each  *)
(* request and the final file; the harness runs each on the tokio, sync and *)
(* io_uring backends (and on SimFile) and compares.                         *)
EXTENDS Integers, Sequences, TLC, Json, IOUtils

Depth == IF "DEPTH" \in DOMAIN IOEnv THEN atoi(IOEnv.DEPTH) ELSE 3
MaxBlk == 5
Lens == {0, 1, 2, 3}
Offs == 0 .. MaxBlk

VARIABLES file, hist
vars == <<file, hist>>

\* content of a block = id of the write that produced it (0 = zeros)
Init == file = <<>> /\ hist = <<>>

Extend(f, n) == IF Len(f) >= n THEN f ELSE f \o [i \in 1 .. n - Len(f) |-> 0]
Write(off, n) ==
  /\ n > 0
  /\ LET id == Len(hist) + 1
         g == Extend(file, off + n)
     IN /\ file' = [i \in 1 .. Len(g) |-> IF i > off /\ i <= off + n THEN id ELSE g[i]]
        /\ hist' = Append(hist, [op |-> "W", off |-> off, n |-> n, id |-> id, res |-> n, data |-> <<>>])
Read(off, n) ==
  LET got == IF off >= Len(file) THEN 0 ELSE IF off + n > Len(file) THEN Len(file) - off ELSE n IN
  /\ file' = file
  /\ hist' = Append(hist, [op |-> "R", off |-> off, n |-> n, id |-> 0, res |-> got,
                           data |-> [i \in 1 .. got |-> file[off + i]]])
Punch(off, n) ==
  /\ n > 0
  /\ file' = [i \in 1 .. Len(file) |-> IF i > off /\ i <= off + n THEN 0 ELSE file[i]]
  /\ hist' = Append(hist, [op |-> "P", off |-> off, n |-> n, id |-> 0, res |-> 0, data |-> <<>>])
Sync ==
  /\ file' = file
  /\ hist' = Append(hist, [op |-> "S", off |-> 0, n |-> 0, id |-> 0, res |-> 0, data |-> <<>>])

Next ==
  /\ Len(hist) < Depth
  /\ \/ \E off \in Offs, n \in Lens : Write(off, n) \/ Read(off, n) \/ Punch(off, n)
     \/ Sync

Spec == Init /\ [][Next]_vars

\* model properties of the reference itself
LengthMonotone == [][Len(file') >= Len(file)]_vars
\* one line per complete behaviour
Emit == Len(hist) = Depth => PrintT("@@" \o ToJson([ops |-> hist, final |-> file]))
=============================================================================
