----------------------------- MODULE Validate -----------------------------
(* C13: the argument-validation decision table of read_at / write_at /    *)
(* discard, over argument *classes* (computed by the harness with 128-bit *)
(* arithmetic).  A class record cls has                                    *)
(*   oa, la : offset / length is a multiple of the block size (1/0)        *)
(*   lz     : length is zero                                               *)
(*   pos    : offset vs virtual size   "lt" | "eq" | "gt"                  *)
(*   end    : offset+length vs virtual size  "le" | "gt" | "ovf"(> u64)    *)
(*   clamp  : blocks between offset and the end of the device (reads)     *)
(*   ro     : device is read-only                                          *)
(* The result is the set of admissible outcomes; where the property text   *)
(* leaves a case open both outcomes are admitted.                          *)
EXTENDS Integers

\* outcome = <<res, n>>  with n = number of blocks (reads)
ExpectWrite(cls, n) ==
  IF cls.ro = 1 \/ cls.oa = 0 \/ cls.la = 0 \/ cls.end # "le"
  THEN {"err"}
  ELSE IF cls.lz = 1 THEN {"ok", "err"}     \* zero length: either, but no panic
  ELSE {"ok"}

WriteValid(cls) == cls.ro = 0 /\ cls.oa = 1 /\ cls.la = 1 /\ cls.end = "le" /\ cls.lz = 0

\* reads: starting at or beyond the end -> Err; zero length -> Ok(0);
\* unaligned -> Err; crossing the end -> clamped count
ExpectRead(cls, n) ==
  IF cls.pos # "lt" THEN {<<"err", 0>>}
  ELSE IF cls.lz = 1 THEN
       (IF cls.oa = 1 THEN {<<"ok", 0>>} ELSE {<<"ok", 0>>, <<"err", 0>>})
  ELSE IF cls.oa = 0 \/ cls.la = 0 THEN {<<"err", 0>>}
  ELSE IF cls.end = "le" THEN {<<"ok", n>>}
  ELSE {<<"ok", cls.clamp>>}

ReadValid(cls) == cls.pos = "lt" /\ cls.lz = 0 /\ cls.oa = 1 /\ cls.la = 1

\* discard: Ok for all arguments on a writable device, Err on a read-only one
ExpectDiscard(cls) == IF cls.ro = 1 THEN {"err"} ELSE {"ok"}
=============================================================================
