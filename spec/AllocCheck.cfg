CONSTANTS E = 64 NS = 2 NRB = 3
