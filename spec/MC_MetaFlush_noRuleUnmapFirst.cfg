CONSTANTS RuleMutex = TRUE RuleRcFirst = TRUE RuleBarrier = TRUE RuleUnmapFirst = FALSE
SPECIFICATION Spec
INVARIANT CrashSafe
CHECK_DEADLOCK FALSE
CONSTANT defaultInitValue = defaultInitValue
