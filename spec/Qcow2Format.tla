--------------------------- MODULE Qcow2Format ---------------------------
(* The qcow2 on-disk format as pure operators over an abstract image.      *)
(*                                                                         *)
(* An image is a function  blk -> content  (block = device block).  The    *)
(* module does not fix what a content is: it is given four accessors       *)
(* (operator constants) by whoever instantiates it -                       *)
(*   the envelope (trace validation): contents are interned ids whose      *)
(*     pointer / refcount readings come from the trace's Meta/Hdr tables,  *)
(*   the design model: contents are explicit functions.                    *)
(* Everything here is written from the qcow2 specification                 *)
(* (docs/interop/qcow2.txt), not from qcow2-rs.                            *)
EXTENDS Integers, Sequences, FiniteSets

CONSTANTS
  BKind(_, _),   \* BKind(img, b)  in {"z","d","m","h"}: zero / data stamp / other bytes / header
  BTok(_, _),    \* data token of a "d" block
  BPtr(_, _, _), \* BPtr(img, b, i): pointer reading of 8-byte entry i of block b (record, see ZeroE)
  BRc(_, _, _),  \* BRc(img, b, i): refcount reading of entry i of block b
  BPtrDom(_, _), \* indices of block b whose 8-byte entry is non-zero
  BRcDom(_, _),  \* indices of block b whose refcount reading is non-zero
  BHdr(_)        \* header record of block 0 (only meaningful if BKind(img,0) = "h")

(* geometry record g:  cb (cluster bits), ro (refcount order), bpc (blocks *)
(* per cluster), epb (8-byte entries per block), rpb (refcounts per        *)
(* block), l2n (L2 entries per table), rbn (refcounts per refblock),       *)
(* vclusters, vblocks                                                      *)

ZeroE == [c |-> 0, ua |-> 0, cp |-> 0, cm |-> 0, z |-> 0, lo |-> 0, hi |-> 0,
          cc |-> 0, cs |-> 0, cbo |-> 0, ns |-> 0, big |-> 0]

BadE == [ZeroE EXCEPT !.big = 1]

Garbage == -1    \* guest block whose bytes are neither zeros nor a whole stamp
NoTok   == -2    \* unreadable: mapping is broken

---------------------------------------------------------------------------
(* Tables *)

TableLike(img, b) == BKind(img, b) \in {"z", "m"}

\* all blocks of host cluster c look like (part of) a table
ClusterTableLike(img, g, c) ==
  \A k \in 0 .. g.bpc - 1 : TableLike(img, c * g.bpc + k)

HdrOK(img, g) ==
  /\ BKind(img, 0) = "h"
  /\ LET h == BHdr(img) IN
     /\ h.ver \in {2, 3}
     /\ h.cb = g.cb
     /\ h.ro = g.ro
     /\ h.crypt = 0 /\ h.inc = 0 /\ h.comp = 0
     /\ h.l1ua = 0 /\ h.rtua = 0
     /\ h.l1c > 0 /\ h.rtc > 0 /\ h.rtn > 0
     /\ h.vszb = g.vszb

L1N(img)  == BHdr(img).l1n
L1C(img)  == BHdr(img).l1c
RTC(img)  == BHdr(img).rtc
RTN(img)  == BHdr(img).rtn

\* number of clusters an n-entry table of 8-byte entries occupies
TabClusters(g, n) == (n + g.l2n - 1) \div g.l2n

L1E(img, g, i) == BPtr(img, L1C(img) * g.bpc + (i \div g.epb), i % g.epb)

\* reftable entries: RTN clusters of l2n 8-byte entries each
RtEntries(img, g) == RTN(img) * g.l2n
RtE(img, g, i) ==
  IF i >= RtEntries(img, g) THEN ZeroE
  ELSE BPtr(img, RTC(img) * g.bpc + (i \div g.epb), i % g.epb)

L2E(img, g, gc) ==
  LET i  == gc \div g.l2n
      j  == gc % g.l2n
      l1 == IF i < L1N(img) THEN L1E(img, g, i) ELSE ZeroE
  IN IF l1.c = 0 THEN ZeroE
     ELSE IF l1.big = 1 THEN BadE    \* table offset out of any file's reach: unreadable
     ELSE BPtr(img, l1.c * g.bpc + (j \div g.epb), j % g.epb)

StoredRc(img, g, c) ==
  LET rt == RtE(img, g, c \div g.rbn)
      j  == c % g.rbn
  IN IF rt.c = 0 \/ rt.big = 1 THEN 0
     ELSE BRc(img, rt.c * g.bpc + (j \div g.rpb), j % g.rpb)

\* well-formedness of the three pointer kinds (reserved bits, alignment)
L1EntryWF(e) == e.z = 0 /\ e.lo = 0 /\ e.hi = 0 /\ e.cm = 0 /\ e.ua = 0 /\ e.big = 0
RtEntryWF(e) == e.z = 0 /\ e.lo = 0 /\ e.hi = 0 /\ e.cm = 0 /\ e.cp = 0 /\ e.ua = 0 /\ e.big = 0
L2EntryWF(e) ==
  IF e.cm = 1 THEN e.cp = 0 /\ e.big = 0
  ELSE e.lo = 0 /\ e.hi = 0 /\ e.ua = 0 /\ e.big = 0

\* kind of a guest cluster as the specification defines it
EKind(e) ==
  IF e.cm = 1 THEN "c"
  ELSE IF e.z = 1 THEN (IF e.c = 0 THEN "z" ELSE "zp")
  ELSE IF e.c # 0 THEN "d"
  ELSE "u"

\* host clusters a compressed entry references: from the cluster holding
\* its first byte to the one holding the last byte of its last sector
CompClusters(g, e) ==
  LET cbytes == g.bpc * g.bsz
      lastb  == e.cs * 512 + (e.ns + 1) * 512 - 1
  IN { e.cc + k : k \in 0 .. (lastb \div cbytes) }

---------------------------------------------------------------------------
(* References: the set of <<tag, index, host cluster>> *)

\* indices of the non-zero entries of a table of n clusters starting at
\* cluster c0 (tables are sparse: iterate over what is there)
TabNZ(img, g, c0, n) ==
  UNION { { k * g.epb + x : x \in BPtrDom(img, c0 * g.bpc + k) } : k \in 0 .. n * g.bpc - 1 }

ActiveL1(img)    == 0 .. L1N(img) - 1
L1NZ(img, g)     == { i \in TabNZ(img, g, L1C(img), TabClusters(g, L1N(img))) : i < L1N(img) }
RtNZ(img, g)     == TabNZ(img, g, RTC(img), RTN(img))
L2Tables(img, g) == { i \in L1NZ(img, g) : L1E(img, g, i).c # 0 /\ L1E(img, g, i).big = 0 }
\* guest clusters with a non-zero L2 entry
MappedGC(img, g) ==
  UNION { { i * g.l2n + j : j \in TabNZ(img, g, L1E(img, g, i).c, 1) } : i \in L2Tables(img, g) }

RefSet(img, g) ==
  LET h == BHdr(img) IN
  {<<0, 0, 0>>}
  \cup { <<1, k, h.l1c + k>> : k \in 0 .. TabClusters(g, h.l1n) - 1 }
  \cup { <<2, k, h.rtc + k>> : k \in 0 .. h.rtn - 1 }
  \cup { <<3, i, RtE(img, g, i).c>> : i \in { i \in RtNZ(img, g) : RtE(img, g, i).c # 0 } }
  \cup { <<4, i, L1E(img, g, i).c>> : i \in L2Tables(img, g) }
  \cup { <<5, gc, L2E(img, g, gc).c>> :
           gc \in { x \in MappedGC(img, g) :
                      L2E(img, g, x).cm = 0 /\ L2E(img, g, x).c # 0 } }
  \cup UNION { { <<6, gc * 64 + (c - L2E(img, g, gc).cc), c>> :
                   c \in CompClusters(g, L2E(img, g, gc)) } :
               gc \in { x \in MappedGC(img, g) : L2E(img, g, x).cm = 1 } }

Refs(RS, c) == Cardinality({ r \in RS : r[3] = c })

\* clusters with a non-zero stored refcount
RcNonZero(img, g) ==
  UNION { UNION { { i * g.rbn + k * g.rpb + x :
                      x \in BRcDom(img, RtE(img, g, i).c * g.bpc + k) } :
                  k \in 0 .. g.bpc - 1 } :
          i \in { i \in RtNZ(img, g) : RtE(img, g, i).c # 0 /\ RtE(img, g, i).big = 0 } }

---------------------------------------------------------------------------
(* Structural validity *)

\* the tables reachable from the header are tables, with well-formed entries
TablesOK(img, g) ==
  /\ HdrOK(img, g)
  /\ \A k \in 0 .. TabClusters(g, L1N(img)) - 1 :
        ClusterTableLike(img, g, L1C(img) + k)
  /\ \A k \in 0 .. RTN(img) - 1 : ClusterTableLike(img, g, RTC(img) + k)
  /\ \A i \in L1NZ(img, g) :
        /\ L1EntryWF(L1E(img, g, i))
        /\ (L1E(img, g, i).c # 0 /\ L1E(img, g, i).big = 0) => ClusterTableLike(img, g, L1E(img, g, i).c)
  /\ \A i \in RtNZ(img, g) :
        /\ RtEntryWF(RtE(img, g, i))
        /\ (RtE(img, g, i).c # 0 /\ RtE(img, g, i).big = 0) => ClusterTableLike(img, g, RtE(img, g, i).c)
  /\ \A gc \in MappedGC(img, g) : L2EntryWF(L2E(img, g, gc))

\* C03: valid image with exact refcounts
NoDoubleRef(RS) ==
  \A r1, r2 \in RS : (r1[3] = r2[3] /\ r1 # r2) => (r1[1] = 6 /\ r2[1] = 6)

Exact(img, g) ==
  LET RS == RefSet(img, g)
      CS == { r[3] : r \in RS } \cup RcNonZero(img, g)
  IN \A c \in CS : StoredRc(img, g, c) = Refs(RS, c)

Undercounted(img, g) ==
  LET RS == RefSet(img, g) IN
  { c \in { r[3] : r \in RS } : StoredRc(img, g, c) < Refs(RS, c) }

Leaked(img, g) ==
  LET RS == RefSet(img, g) IN
  { c \in RcNonZero(img, g) : StoredRc(img, g, c) > Refs(RS, c) }

WellFormed(img, g) ==
  /\ TablesOK(img, g)
  /\ NoDoubleRef(RefSet(img, g))
  \* allocated standard clusters carry COPIED, L2 tables too
  /\ \A i \in L2Tables(img, g) : L1E(img, g, i).cp = 1
  /\ \A gc \in MappedGC(img, g) :
        LET e == L2E(img, g, gc) IN
        /\ (e.cm = 0 /\ e.c # 0) => e.cp = 1
        \* nothing maps beyond the virtual size
        /\ gc >= g.vclusters => EKind(e) = "u"

\* C04: safe = usable; leaks allowed
Safe(img, g) ==
  /\ TablesOK(img, g)
  /\ Undercounted(img, g) = {}

---------------------------------------------------------------------------
(* The specification's reader *)

\* content of guest block gb according to the image alone.
\*  btok   : token the backing chain supplies for gb (0 without backing)
\*  ctok   : [g |-> token source] for compressed clusters: CompOK(gc, e)
\*           says whether entry e is the original, intact compressed cluster
GuestBlock(img, g, gb, btok, CompTok(_, _)) ==
  LET gc == gb \div g.bpc
      e  == L2E(img, g, gc)
      k  == EKind(e)
  IN IF ~L2EntryWF(e) THEN NoTok
     ELSE IF k = "u" THEN btok
     ELSE IF k \in {"z", "zp"} THEN 0
     ELSE IF k = "c" THEN CompTok(gb, e)
     ELSE LET b == e.c * g.bpc + (gb % g.bpc) IN
          IF BKind(img, b) = "d" THEN BTok(img, b)
          ELSE IF BKind(img, b) = "z" THEN 0
          ELSE Garbage

=============================================================================
