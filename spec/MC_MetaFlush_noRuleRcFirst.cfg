CONSTANTS RuleMutex = TRUE RuleRcFirst = FALSE RuleBarrier = TRUE RuleUnmapFirst = TRUE
SPECIFICATION Spec
INVARIANT CrashSafe
CHECK_DEADLOCK FALSE
CONSTANT defaultInitValue = defaultInitValue
