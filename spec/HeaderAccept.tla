--------------------------- MODULE HeaderAccept ---------------------------
(* C14: which malformed / unsupported images must be REFUSED at open, and   *)
(* the space of structured malformations.  A mutation is <<field, class>>.  *)
(* TLC enumerates single mutations and pairs on different fields; the       *)
(* harness applies them to an independently built valid image.  For every   *)
(* case: open must not panic; if MustRefuse it must return Err; if it       *)
(* returns a device, every operation must return (Ok or Err) without panic, *)
(* hang, or memory out of proportion.                                       *)
EXTENDS Integers, Sequences, FiniteSets, TLC, Json

Classes ==
  [ magic    |-> {"bad"},
    version  |-> {"v0", "v1", "v4", "vhuge"},
    cbits    |-> {"c0", "c8", "c22", "c31", "c64"},
    crypt    |-> {"aes", "luks", "unknown"},
    incompat |-> {"dirty", "corrupt", "extdata", "comptype", "extl2", "bit5", "bit63"},
    comp     |-> {"zstd"},
    rorder   |-> {"r7", "r31", "r64", "rhuge"},
    hlen     |-> {"h0", "h72", "h105", "h4096", "hhuge"},
    l1off    |-> {"unaligned", "beyond", "huge", "zero"},
    rtoff    |-> {"unaligned", "beyond", "huge", "zero"},
    l1size   |-> {"zero", "huge", "wrap", "short"},
    rtclus   |-> {"zero", "huge", "wrap", "wrap1", "top"},
    size     |-> {"zero", "huge", "odd"},
    backing  |-> {"offbeyond", "toolong", "overflow", "nonutf8"},
    ext      |-> {"lenbeyond", "lengap", "feat1", "feat49", "unknownodd", "noend", "lenhuge"},
    snap     |-> {"one"},
    l1e      |-> {"unaligned", "beyond", "header", "reserved", "self", "uncovered"},
    l2e      |-> {"unaligned", "beyond", "header", "l1table", "reserved", "compeof", "comphuge", "zeroalloc", "uncovered", "uncovtop"},
    rte      |-> {"unaligned", "beyond", "reserved", "header"},
    rbe      |-> {"zeroused", "max"},
    trunc    |-> {"hdr", "tables", "empty"} ]

Fields == DOMAIN Classes
Singles == UNION { { << <<f, c>> >> : c \in Classes[f] } : f \in Fields }
Muts == UNION { { <<f, c>> : c \in Classes[f] } : f \in Fields }
Pairs == { <<m1, m2>> : <<m1, m2>> \in { p \in Muts \X Muts : p[1][1] # p[2][1] } }

\* features outside the supported set and structurally impossible headers:
\* the image must be refused, never misread
Refused(m) ==
  \/ m[1] = "magic"
  \/ m[1] = "version"
  \/ m[1] = "cbits"
  \/ m[1] = "crypt"
  \/ m[1] = "incompat" /\ m[2] \in {"extdata", "comptype", "extl2", "bit5", "bit63"}
  \/ m[1] = "rorder"
  \/ m[1] = "comp"          \* non-deflate compression type
MustRefuse(ms) == \E i \in 1 .. Len(ms) : Refused(ms[i])
=============================================================================
