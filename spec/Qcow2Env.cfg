SPECIFICATION Spec
CONSTRAINT Audit
POSTCONDITION Finished
CHECK_DEADLOCK FALSE
