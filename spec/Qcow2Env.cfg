SPECIFICATION Spec
VIEW View
CONSTRAINT Audit
POSTCONDITION Finished
CHECK_DEADLOCK FALSE
