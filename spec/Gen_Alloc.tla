----------------------------- MODULE Gen_Alloc -----------------------------
(* Alloc.tla with the real geometry (64 refcounts per slice, 2 slices per   *)
(* refblock: 1 KiB clusters, 64-bit refcounts, 512-byte slices) evaluated   *)
(* on boundary-shaped refcount patterns.  One line per case with the        *)
(* expected result, refcounts and hint afterwards; replayed into the real   *)
(* allocator through hooks (binding B3).                                    *)
EXTENDS Alloc, Json, IOUtils

VARIABLES v
Meta == 0 .. 3        \* header, reftable, refblock 0, L1 table of the built image

Run(a, b) == a .. b
S0Shapes == { {}, Run(4, 63), Run(4, 10), Run(4, 62), Run(50, 63), Run(62, 63), {63},
              Run(4, 63) \ {20}, Run(4, 63) \ Run(60, 63), Run(4, 63) \ Run(30, 32),
              Run(4, 63) \ {40, 63} }
S1Shapes == { {}, Run(64, 127), {64}, Run(64, 70), Run(64, 127) \ {64}, Run(64, 127) \ Run(100, 107),
              {127}, Run(64, 127) \ Run(120, 127), Run(64, 127) \ Run(65, 72), Run(66, 127) }
R1Shapes == { <<FALSE, {}>>, <<TRUE, {128}>>, <<TRUE, Run(128, 135)>>, <<TRUE, Run(128, 255) \ Run(200, 210)>> }
Hints  == {0, 4, 20, 60, 63, 64, 100, 127}
Counts == {1, 2, 3, 4, 8, 9, 60, 64, 65, 70, 128}
Quick == "QUICK" \in DOMAIN IOEnv /\ IOEnv.QUICK = "1"

Init ==
  \E s0 \in S0Shapes, s1 \in S1Shapes, r1 \in R1Shapes, h \in Hints, c \in Counts :
     /\ (Quick => (c \in {1, 3, 8, 64, 70} /\ h \in {0, 20, 63, 100}))
     /\ v = [used |-> Meta \cup s0 \cup s1 \cup r1[2], rb1 |-> r1[1], hint |-> h, count |-> c]
Next == UNCHANGED v
Spec == Init /\ [][Next]_v

Rc0 == [c \in Clusters |-> IF c \in v.used THEN 1 ELSE 0]
Rt0 == [i \in 0 .. NRB - 1 |-> i = 0 \/ (i = 1 /\ v.rb1)]
A == Alloc(Rc0, Rt0, v.hint, v.count)

\* the design-level contract holds on these states as well
ContractHolds == Contract(Rc0, Rt0, v.hint, v.count)
\* what free_clusters() of the run just handed out leaves behind
Emit ==
  LET a  == Alloc(Rc0, Rt0, v.hint, v.count)
      fh == IF IsNone(a.res) THEN a.hint ELSE HintAfterFree(a.rc, a.hint, a.res)
      fr == IF IsNone(a.res) THEN a.rc ELSE Dec(a.rc, a.res)
  IN
  PrintT("@@" \o ToJson([used |-> v.used, rb1 |-> v.rb1, hint |-> v.hint, count |-> v.count,
                          res |-> a.res, used_after |-> { c \in Clusters : a.rc[c] # 0 },
                          hint_after |-> a.hint, rt_after |-> a.rt, nospace |-> a.nospace,
                          used_freed |-> { c \in Clusters : fr[c] # 0 }, hint_freed |-> fh]))
=============================================================================
