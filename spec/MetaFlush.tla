----------------------------- MODULE MetaFlush -----------------------------
(* Design level: the ordering protocol between the two metadata caches and  *)
(* the disk, reduced to ONE L2 entry (guest cluster g: unmapped / mapped to *)
(* host cluster c) in one L2 slice and ONE refcount (of c) in one refblock  *)
(* slice.  It models what the repairs D11, D16-D18, D24, D45-D47 are about: *)
(*                                                                          *)
(*   - a cached slice is marked CLEAN WHEN ITS WRITE-BACK STARTS, so        *)
(*     "nothing dirty" does not mean "on disk";                             *)
(*   - an fsync covers the writes that have COMPLETED when it is issued;    *)
(*   - the disk may hold, for each block independently, the last durable    *)
(*     content or that of any write not yet covered by an fsync;            *)
(*   - a crash image is usable iff  mapped(g) => refcount(c) = 1.           *)
(*                                                                          *)
(* Processes: an allocating writer, a discarder, flush_meta, and a second   *)
(* writer that flushes its L2 slice itself (the copy-on-write path).  The   *)
(* code's rules are guards that a constant can switch off; TLC shows that   *)
(* the protocol is crash safe with all of them and produces the            *)
(* corresponding defect without each (MC_MetaFlush*.cfg).  The real code    *)
(* without a rule is the tree before the repair: the regress scenario of    *)
(* that finding fails the envelope check (Inv_C04) in the same way.         *)
EXTENDS Integers, FiniteSets, Sequences, TLC

CONSTANTS
  RuleMutex,      \* refcount write-back + its fsync are serialised (refcount_flush_lock)          D18
  RuleRcFirst,    \* an L2 slice is written with the slice read-locked from before the refcount    D24 D45
                  \* flush until the write is done
  RuleBarrier,    \* who relies on "the slice is clean" waits for a write-back in flight            D46 D47
  RuleUnmapFirst  \* discard makes the unmapping durable before it drops the refcount               D11

(* --algorithm MetaFlush {
  variables
    \* the cluster is unmapped (0) or mapped, flushed and synced (1) to begin with
    start \in {0, 1},
    \* in ram
    ram_map = start, ram_rc = start, l2_dirty = FALSE, rb_dirty = FALSE,
    \* the file: visible, durable, writes in flight, completed writes no fsync has covered yet
    vis = [l2 |-> start, rb |-> start], dur = [l2 |-> start, rb |-> start],
    infl = {}, pend = {},
    \* locks: readers / writer of the L2 slice lock, holder of the refcount flush mutex
    readers = 0, writer = FALSE, mutex = "none";

  define {
    Cands(k) == {dur[k]} \cup { w.v : w \in { x \in infl \cup pend : x.k = k } }
    \* every crash image is usable
    CrashSafe == (1 \in Cands("l2")) => (0 \notin Cands("rb"))
  }

  macro Issue(k, v, id)   { infl := infl \cup {[k |-> k, v |-> v, id |-> id]}; }
  macro Complete(k, id)   { with (w \in { x \in infl : x.k = k /\ x.id = id }) {
                              vis[k] := w.v; infl := infl \ {w}; pend := pend \cup {w}; } }
  macro Fsync()           { dur := [k \in {"l2", "rb"} |->
                                      IF \E w \in pend : w.k = k THEN vis[k] ELSE dur[k]];
                            pend := {}; }

  \* flush_refcount(): write the refblock slice back if it is dirty, then fsync
  procedure FlushRefcount()
    variable v = 0;
  {
    r0: if (RuleMutex) { await mutex = "none"; mutex := self; };
    r1: if (rb_dirty) {
          rb_dirty := FALSE; v := ram_rc; Issue("rb", v, self);
    r2:   Complete("rb", self);
    r3:   Fsync();
        };
    r4: if (RuleMutex) { mutex := "none"; };
        return;
  }

  \* write the L2 slice back (flush_cache_entries): read-locked while the write is in flight
  procedure WriteSlice(locked)
    variable v = 0;
  {
    s0: if (~locked) { await ~writer; readers := readers + 1; };
    s1: if (l2_dirty) {
          l2_dirty := FALSE; v := ram_map; Issue("l2", v, self);
    s2:   Complete("l2", self);
        };
    s3: if (~locked) { readers := readers - 1; };
        return;
  }

  \* a mapping flush: refcounts first
  procedure FlushMapping()
  {
    m0: if (RuleRcFirst) { await ~writer; readers := readers + 1; };
    m1: call FlushRefcount();
    m2: call WriteSlice(RuleRcFirst);
    m3: if (RuleRcFirst) { readers := readers - 1; };
        return;
  }

  \* write_at() to an unmapped cluster: allocate and map under the slice's write lock
  process (Writer = "writer")
  {
    w0: await ~writer /\ readers = 0; writer := TRUE;
    \* (c can be handed out only while its refcount in ram is 0; otherwise the writer gets
    \*  some other cluster, which is outside this model)
    w1: if (ram_map = 0 /\ ram_rc = 0) { ram_rc := 1; rb_dirty := TRUE; ram_map := 1; l2_dirty := TRUE; };
        writer := FALSE;
  }

  \* a second writer that flushes the slice itself afterwards (copy-on-write path; it does not
  \* change the entry of g - its own cluster is outside the model - but it writes the slice)
  process (Cow = "cow")
  {
    c0: call FlushMapping();
    c1: skip;
  }

  process (Flusher = "flush_meta")
  {
    f0: call FlushRefcount();
    f1: call FlushMapping();
    f2: Fsync();
  }

  process (Discarder = "discard")
  {
    d0: await ~writer /\ readers = 0; writer := TRUE;
    d1: if (ram_map = 1) {
          ram_map := 0; l2_dirty := TRUE; writer := FALSE;
          if (RuleUnmapFirst) {
    d2:     call FlushMapping();
    d3:     if (RuleBarrier) { await ~writer /\ readers = 0; };
    d4:     Fsync();
          };
    d5:   ram_rc := 0; rb_dirty := TRUE;
        } else {
          writer := FALSE;
        };
  }
} *)
\* BEGIN TRANSLATION
\* Procedure variable v of procedure FlushRefcount at line 57 col 14 changed to v_
CONSTANT defaultInitValue
VARIABLES pc, start, ram_map, ram_rc, l2_dirty, rb_dirty, vis, dur, infl, 
          pend, readers, writer, mutex, stack

(* define statement *)
Cands(k) == {dur[k]} \cup { w.v : w \in { x \in infl \cup pend : x.k = k } }

CrashSafe == (1 \in Cands("l2")) => (0 \notin Cands("rb"))

VARIABLES v_, locked, v

vars == << pc, start, ram_map, ram_rc, l2_dirty, rb_dirty, vis, dur, infl, 
           pend, readers, writer, mutex, stack, v_, locked, v >>

ProcSet == {"writer"} \cup {"cow"} \cup {"flush_meta"} \cup {"discard"}

Init == (* Global variables *)
        /\ start \in {0, 1}
        /\ ram_map = start
        /\ ram_rc = start
        /\ l2_dirty = FALSE
        /\ rb_dirty = FALSE
        /\ vis = [l2 |-> start, rb |-> start]
        /\ dur = [l2 |-> start, rb |-> start]
        /\ infl = {}
        /\ pend = {}
        /\ readers = 0
        /\ writer = FALSE
        /\ mutex = "none"
        (* Procedure FlushRefcount *)
        /\ v_ = [ self \in ProcSet |-> 0]
        (* Procedure WriteSlice *)
        /\ locked = [ self \in ProcSet |-> defaultInitValue]
        /\ v = [ self \in ProcSet |-> 0]
        /\ stack = [self \in ProcSet |-> << >>]
        /\ pc = [self \in ProcSet |-> CASE self = "writer" -> "w0"
                                        [] self = "cow" -> "c0"
                                        [] self = "flush_meta" -> "f0"
                                        [] self = "discard" -> "d0"]

r0(self) == /\ pc[self] = "r0"
            /\ IF RuleMutex
                  THEN /\ mutex = "none"
                       /\ mutex' = self
                  ELSE /\ TRUE
                       /\ mutex' = mutex
            /\ pc' = [pc EXCEPT ![self] = "r1"]
            /\ UNCHANGED << start, ram_map, ram_rc, l2_dirty, rb_dirty, vis, 
                            dur, infl, pend, readers, writer, stack, v_, 
                            locked, v >>

r1(self) == /\ pc[self] = "r1"
            /\ IF rb_dirty
                  THEN /\ rb_dirty' = FALSE
                       /\ v_' = [v_ EXCEPT ![self] = ram_rc]
                       /\ infl' = (infl \cup {[k |-> "rb", v |-> v_'[self], id |-> self]})
                       /\ pc' = [pc EXCEPT ![self] = "r2"]
                  ELSE /\ pc' = [pc EXCEPT ![self] = "r4"]
                       /\ UNCHANGED << rb_dirty, infl, v_ >>
            /\ UNCHANGED << start, ram_map, ram_rc, l2_dirty, vis, dur, pend, 
                            readers, writer, mutex, stack, locked, v >>

r2(self) == /\ pc[self] = "r2"
            /\ \E w \in { x \in infl : x.k = "rb" /\ x.id = self }:
                 /\ vis' = [vis EXCEPT !["rb"] = w.v]
                 /\ infl' = infl \ {w}
                 /\ pend' = (pend \cup {w})
            /\ pc' = [pc EXCEPT ![self] = "r3"]
            /\ UNCHANGED << start, ram_map, ram_rc, l2_dirty, rb_dirty, dur, 
                            readers, writer, mutex, stack, v_, locked, v >>

r3(self) == /\ pc[self] = "r3"
            /\ dur' = [k \in {"l2", "rb"} |->
                         IF \E w \in pend : w.k = k THEN vis[k] ELSE dur[k]]
            /\ pend' = {}
            /\ pc' = [pc EXCEPT ![self] = "r4"]
            /\ UNCHANGED << start, ram_map, ram_rc, l2_dirty, rb_dirty, vis, 
                            infl, readers, writer, mutex, stack, v_, locked, v >>

r4(self) == /\ pc[self] = "r4"
            /\ IF RuleMutex
                  THEN /\ mutex' = "none"
                  ELSE /\ TRUE
                       /\ mutex' = mutex
            /\ pc' = [pc EXCEPT ![self] = Head(stack[self]).pc]
            /\ v_' = [v_ EXCEPT ![self] = Head(stack[self]).v_]
            /\ stack' = [stack EXCEPT ![self] = Tail(stack[self])]
            /\ UNCHANGED << start, ram_map, ram_rc, l2_dirty, rb_dirty, vis, 
                            dur, infl, pend, readers, writer, locked, v >>

FlushRefcount(self) == r0(self) \/ r1(self) \/ r2(self) \/ r3(self)
                          \/ r4(self)

s0(self) == /\ pc[self] = "s0"
            /\ IF ~locked[self]
                  THEN /\ ~writer
                       /\ readers' = readers + 1
                  ELSE /\ TRUE
                       /\ UNCHANGED readers
            /\ pc' = [pc EXCEPT ![self] = "s1"]
            /\ UNCHANGED << start, ram_map, ram_rc, l2_dirty, rb_dirty, vis, 
                            dur, infl, pend, writer, mutex, stack, v_, locked, 
                            v >>

s1(self) == /\ pc[self] = "s1"
            /\ IF l2_dirty
                  THEN /\ l2_dirty' = FALSE
                       /\ v' = [v EXCEPT ![self] = ram_map]
                       /\ infl' = (infl \cup {[k |-> "l2", v |-> v'[self], id |-> self]})
                       /\ pc' = [pc EXCEPT ![self] = "s2"]
                  ELSE /\ pc' = [pc EXCEPT ![self] = "s3"]
                       /\ UNCHANGED << l2_dirty, infl, v >>
            /\ UNCHANGED << start, ram_map, ram_rc, rb_dirty, vis, dur, pend, 
                            readers, writer, mutex, stack, v_, locked >>

s2(self) == /\ pc[self] = "s2"
            /\ \E w \in { x \in infl : x.k = "l2" /\ x.id = self }:
                 /\ vis' = [vis EXCEPT !["l2"] = w.v]
                 /\ infl' = infl \ {w}
                 /\ pend' = (pend \cup {w})
            /\ pc' = [pc EXCEPT ![self] = "s3"]
            /\ UNCHANGED << start, ram_map, ram_rc, l2_dirty, rb_dirty, dur, 
                            readers, writer, mutex, stack, v_, locked, v >>

s3(self) == /\ pc[self] = "s3"
            /\ IF ~locked[self]
                  THEN /\ readers' = readers - 1
                  ELSE /\ TRUE
                       /\ UNCHANGED readers
            /\ pc' = [pc EXCEPT ![self] = Head(stack[self]).pc]
            /\ v' = [v EXCEPT ![self] = Head(stack[self]).v]
            /\ locked' = [locked EXCEPT ![self] = Head(stack[self]).locked]
            /\ stack' = [stack EXCEPT ![self] = Tail(stack[self])]
            /\ UNCHANGED << start, ram_map, ram_rc, l2_dirty, rb_dirty, vis, 
                            dur, infl, pend, writer, mutex, v_ >>

WriteSlice(self) == s0(self) \/ s1(self) \/ s2(self) \/ s3(self)

m0(self) == /\ pc[self] = "m0"
            /\ IF RuleRcFirst
                  THEN /\ ~writer
                       /\ readers' = readers + 1
                  ELSE /\ TRUE
                       /\ UNCHANGED readers
            /\ pc' = [pc EXCEPT ![self] = "m1"]
            /\ UNCHANGED << start, ram_map, ram_rc, l2_dirty, rb_dirty, vis, 
                            dur, infl, pend, writer, mutex, stack, v_, locked, 
                            v >>

m1(self) == /\ pc[self] = "m1"
            /\ stack' = [stack EXCEPT ![self] = << [ procedure |->  "FlushRefcount",
                                                     pc        |->  "m2",
                                                     v_        |->  v_[self] ] >>
                                                 \o stack[self]]
            /\ v_' = [v_ EXCEPT ![self] = 0]
            /\ pc' = [pc EXCEPT ![self] = "r0"]
            /\ UNCHANGED << start, ram_map, ram_rc, l2_dirty, rb_dirty, vis, 
                            dur, infl, pend, readers, writer, mutex, locked, v >>

m2(self) == /\ pc[self] = "m2"
            /\ /\ locked' = [locked EXCEPT ![self] = RuleRcFirst]
               /\ stack' = [stack EXCEPT ![self] = << [ procedure |->  "WriteSlice",
                                                        pc        |->  "m3",
                                                        v         |->  v[self],
                                                        locked    |->  locked[self] ] >>
                                                    \o stack[self]]
            /\ v' = [v EXCEPT ![self] = 0]
            /\ pc' = [pc EXCEPT ![self] = "s0"]
            /\ UNCHANGED << start, ram_map, ram_rc, l2_dirty, rb_dirty, vis, 
                            dur, infl, pend, readers, writer, mutex, v_ >>

m3(self) == /\ pc[self] = "m3"
            /\ IF RuleRcFirst
                  THEN /\ readers' = readers - 1
                  ELSE /\ TRUE
                       /\ UNCHANGED readers
            /\ pc' = [pc EXCEPT ![self] = Head(stack[self]).pc]
            /\ stack' = [stack EXCEPT ![self] = Tail(stack[self])]
            /\ UNCHANGED << start, ram_map, ram_rc, l2_dirty, rb_dirty, vis, 
                            dur, infl, pend, writer, mutex, v_, locked, v >>

FlushMapping(self) == m0(self) \/ m1(self) \/ m2(self) \/ m3(self)

w0 == /\ pc["writer"] = "w0"
      /\ ~writer /\ readers = 0
      /\ writer' = TRUE
      /\ pc' = [pc EXCEPT !["writer"] = "w1"]
      /\ UNCHANGED << start, ram_map, ram_rc, l2_dirty, rb_dirty, vis, dur, 
                      infl, pend, readers, mutex, stack, v_, locked, v >>

w1 == /\ pc["writer"] = "w1"
      /\ IF ram_map = 0 /\ ram_rc = 0
            THEN /\ ram_rc' = 1
                 /\ rb_dirty' = TRUE
                 /\ ram_map' = 1
                 /\ l2_dirty' = TRUE
            ELSE /\ TRUE
                 /\ UNCHANGED << ram_map, ram_rc, l2_dirty, rb_dirty >>
      /\ writer' = FALSE
      /\ pc' = [pc EXCEPT !["writer"] = "Done"]
      /\ UNCHANGED << start, vis, dur, infl, pend, readers, mutex, stack, v_, 
                      locked, v >>

Writer == w0 \/ w1

c0 == /\ pc["cow"] = "c0"
      /\ stack' = [stack EXCEPT !["cow"] = << [ procedure |->  "FlushMapping",
                                                pc        |->  "c1" ] >>
                                            \o stack["cow"]]
      /\ pc' = [pc EXCEPT !["cow"] = "m0"]
      /\ UNCHANGED << start, ram_map, ram_rc, l2_dirty, rb_dirty, vis, dur, 
                      infl, pend, readers, writer, mutex, v_, locked, v >>

c1 == /\ pc["cow"] = "c1"
      /\ TRUE
      /\ pc' = [pc EXCEPT !["cow"] = "Done"]
      /\ UNCHANGED << start, ram_map, ram_rc, l2_dirty, rb_dirty, vis, dur, 
                      infl, pend, readers, writer, mutex, stack, v_, locked, v >>

Cow == c0 \/ c1

f0 == /\ pc["flush_meta"] = "f0"
      /\ stack' = [stack EXCEPT !["flush_meta"] = << [ procedure |->  "FlushRefcount",
                                                       pc        |->  "f1",
                                                       v_        |->  v_["flush_meta"] ] >>
                                                   \o stack["flush_meta"]]
      /\ v_' = [v_ EXCEPT !["flush_meta"] = 0]
      /\ pc' = [pc EXCEPT !["flush_meta"] = "r0"]
      /\ UNCHANGED << start, ram_map, ram_rc, l2_dirty, rb_dirty, vis, dur, 
                      infl, pend, readers, writer, mutex, locked, v >>

f1 == /\ pc["flush_meta"] = "f1"
      /\ stack' = [stack EXCEPT !["flush_meta"] = << [ procedure |->  "FlushMapping",
                                                       pc        |->  "f2" ] >>
                                                   \o stack["flush_meta"]]
      /\ pc' = [pc EXCEPT !["flush_meta"] = "m0"]
      /\ UNCHANGED << start, ram_map, ram_rc, l2_dirty, rb_dirty, vis, dur, 
                      infl, pend, readers, writer, mutex, v_, locked, v >>

f2 == /\ pc["flush_meta"] = "f2"
      /\ dur' = [k \in {"l2", "rb"} |->
                   IF \E w \in pend : w.k = k THEN vis[k] ELSE dur[k]]
      /\ pend' = {}
      /\ pc' = [pc EXCEPT !["flush_meta"] = "Done"]
      /\ UNCHANGED << start, ram_map, ram_rc, l2_dirty, rb_dirty, vis, infl, 
                      readers, writer, mutex, stack, v_, locked, v >>

Flusher == f0 \/ f1 \/ f2

d0 == /\ pc["discard"] = "d0"
      /\ ~writer /\ readers = 0
      /\ writer' = TRUE
      /\ pc' = [pc EXCEPT !["discard"] = "d1"]
      /\ UNCHANGED << start, ram_map, ram_rc, l2_dirty, rb_dirty, vis, dur, 
                      infl, pend, readers, mutex, stack, v_, locked, v >>

d1 == /\ pc["discard"] = "d1"
      /\ IF ram_map = 1
            THEN /\ ram_map' = 0
                 /\ l2_dirty' = TRUE
                 /\ writer' = FALSE
                 /\ IF RuleUnmapFirst
                       THEN /\ pc' = [pc EXCEPT !["discard"] = "d2"]
                       ELSE /\ pc' = [pc EXCEPT !["discard"] = "d5"]
            ELSE /\ writer' = FALSE
                 /\ pc' = [pc EXCEPT !["discard"] = "Done"]
                 /\ UNCHANGED << ram_map, l2_dirty >>
      /\ UNCHANGED << start, ram_rc, rb_dirty, vis, dur, infl, pend, readers, 
                      mutex, stack, v_, locked, v >>

d5 == /\ pc["discard"] = "d5"
      /\ ram_rc' = 0
      /\ rb_dirty' = TRUE
      /\ pc' = [pc EXCEPT !["discard"] = "Done"]
      /\ UNCHANGED << start, ram_map, l2_dirty, vis, dur, infl, pend, readers, 
                      writer, mutex, stack, v_, locked, v >>

d2 == /\ pc["discard"] = "d2"
      /\ stack' = [stack EXCEPT !["discard"] = << [ procedure |->  "FlushMapping",
                                                    pc        |->  "d3" ] >>
                                                \o stack["discard"]]
      /\ pc' = [pc EXCEPT !["discard"] = "m0"]
      /\ UNCHANGED << start, ram_map, ram_rc, l2_dirty, rb_dirty, vis, dur, 
                      infl, pend, readers, writer, mutex, v_, locked, v >>

d3 == /\ pc["discard"] = "d3"
      /\ IF RuleBarrier
            THEN /\ ~writer /\ readers = 0
            ELSE /\ TRUE
      /\ pc' = [pc EXCEPT !["discard"] = "d4"]
      /\ UNCHANGED << start, ram_map, ram_rc, l2_dirty, rb_dirty, vis, dur, 
                      infl, pend, readers, writer, mutex, stack, v_, locked, v >>

d4 == /\ pc["discard"] = "d4"
      /\ dur' = [k \in {"l2", "rb"} |->
                   IF \E w \in pend : w.k = k THEN vis[k] ELSE dur[k]]
      /\ pend' = {}
      /\ pc' = [pc EXCEPT !["discard"] = "d5"]
      /\ UNCHANGED << start, ram_map, ram_rc, l2_dirty, rb_dirty, vis, infl, 
                      readers, writer, mutex, stack, v_, locked, v >>

Discarder == d0 \/ d1 \/ d5 \/ d2 \/ d3 \/ d4

(* Allow infinite stuttering to prevent deadlock on termination. *)
Terminating == /\ \A self \in ProcSet: pc[self] = "Done"
               /\ UNCHANGED vars

Next == Writer \/ Cow \/ Flusher \/ Discarder
           \/ (\E self \in ProcSet:  \/ FlushRefcount(self) \/ WriteSlice(self)
                                     \/ FlushMapping(self))
           \/ Terminating

Spec == Init /\ [][Next]_vars

Termination == <>(\A self \in ProcSet: pc[self] = "Done")

\* END TRANSLATION

\* after everything has run and one more flush_meta + fsync the file says what ram says
=============================================================================
