------------------------------- MODULE Alloc -------------------------------
(* D (design level): the cluster allocator of qcow2-rs, transcribed from    *)
(* src/dev/alloc.rs + src/meta/refcount.rs as pure (recursive) operators.   *)
(*                                                                          *)
(*   allocate_clusters -> try_allocate_from -> try_alloc_from_rb_slice      *)
(*   -> RefBlock::get_free_range / get_tail_free_range / alloc_range        *)
(*   free_clusters, the free hint (fetch_max on single allocation,          *)
(*   fetch_min on free), new refblock at its fixed offset with a            *)
(*   self-reference, the "fragment found and retry" branch.                 *)
(*                                                                          *)
(* Used twice:                                                              *)
(*  - MC_AllocSmall: TLC checks the allocator's contract (C08) on EVERY     *)
(*    refcount pattern / hint / request of a tiny geometry;                 *)
(*  - Gen_Alloc: with the real geometry (64 refcounts per slice) TLC        *)
(*    evaluates the model on boundary-shaped patterns and prints, for each, *)
(*    the expected result and the expected refcounts afterwards; the        *)
(*    harness replays each into the real allocator through hook H3 and      *)
(*    compares (binding B3: specification behaviour => implementation).     *)
EXTENDS Integers, Sequences, FiniteSets, TLC

CONSTANTS E,      \* refcounts per refblock slice
          NS,     \* slices per refblock
          NRB     \* refblocks the refcount table has room for

RBN == E * NS                  \* clusters per refblock
N   == RBN * NRB               \* clusters covered
Clusters == 0 .. N - 1

Min(S) == CHOOSE x \in S : \A y \in S : x <= y
Max(S) == CHOOSE x \in S : \A y \in S : x >= y
MinI(a, b) == IF a < b THEN a ELSE b
MaxI(a, b) == IF a > b THEN a ELSE b

SliceStart(c) == (c \div E) * E
SliceEnd(c)   == SliceStart(c) + E
RbIdx(c)      == c \div RBN
RbStart(c)    == RbIdx(c) * RBN
RbEnd(c)      == RbStart(c) + RBN

None == <<-1, 0>>
IsNone(r) == r[1] < 0

\* state: rc (refcount per cluster), rt (does refblock i exist), hint
\* RefBlock::get_free_range(start, count): first window of count free entries
GetFreeRange(rc, s0, idx, count) ==
  LET cands == { i \in idx .. (E - count) : \A j \in i .. i + count - 1 : rc[s0 + j] = 0 }
  IN IF cands = {} THEN None ELSE <<s0 + Min(cands), count>>

\* RefBlock::get_tail_free_range(): what is free behind the last used entry
TailFree(rc, s0) ==
  LET used == { i \in 0 .. E - 1 : rc[s0 + i] # 0 }
  IN IF used = {} THEN None
     ELSE LET m == Max(used) IN IF m = E - 1 THEN None ELSE <<s0 + m + 1, E - (m + 1)>>

\* try_alloc_from_rb_slice(cls, count, fixed_start)
TryAllocSlice(rc, c, count, fixed) ==
  LET idx == c % E IN
  IF idx + count > E THEN None
  ELSE LET r == GetFreeRange(rc, SliceStart(c), idx, count) IN
       IF ~IsNone(r) THEN r
       ELSE IF fixed THEN None
       ELSE TailFree(rc, SliceStart(c))

Inc(rc, r) == [c \in DOMAIN rc |-> IF c >= r[1] /\ c < r[1] + r[2] THEN rc[c] + 1 ELSE rc[c]]
Dec(rc, r) == [c \in DOMAIN rc |-> IF c >= r[1] /\ c < r[1] + r[2] THEN rc[c] - 1 ELSE rc[c]]
\* free_clusters: the hint drops to the first cluster that becomes free
HintAfterFree(rc, hint, r) ==
  LET z == { c \in r[1] .. r[1] + r[2] - 1 : rc[c] = 1 } IN
  IF z = {} THEN hint ELSE MinI(hint, Min(z))

\* the loop of try_allocate_from(); st = [rc, hint], result [rc, hint, res, fuel]
RECURSIVE Loop(_, _, _, _, _, _, _, _)
Loop(rc, hint, hc, rbend, want, count, done, outfuel) ==
  LET out  == outfuel[1]
      fuel == outfuel[2]
  IN
  IF fuel = 0 THEN [rc |-> rc, hint |-> hint, res |-> None, livelock |-> TRUE]
  ELSE IF count = 0 \/ hc >= rbend THEN
       [rc |-> rc, hint |-> hint, res |-> IF done # 0 THEN <<out, done>> ELSE None, livelock |-> FALSE]
  ELSE
    LET curr == MinI(count, E)
        r    == TryAllocSlice(rc, hc, curr, done # 0)
    IN IF ~IsNone(r) THEN
         IF done = 0 THEN Loop(Inc(rc, r), hint, r[1] + r[2], rbend, want, count - r[2], r[2], <<r[1], fuel - 1>>)
         ELSE IF hc # r[1] THEN
           \* "fragment found and retry": give both pieces back and start over here
           LET rc1 == Inc(rc, r)
               h1  == HintAfterFree(rc1, hint, <<out, done>>)
               rc2 == Dec(rc1, <<out, done>>)
               h2  == HintAfterFree(rc2, h1, r)
               rc3 == Dec(rc2, r)
           IN Loop(rc3, h2, hc, rbend, want, want, 0, <<0, fuel - 1>>)
         ELSE Loop(Inc(rc, r), hint, r[1] + r[2], rbend, want, count - r[2], done + r[2], <<out, fuel - 1>>)
       ELSE IF done = 0 THEN Loop(rc, hint, SliceEnd(hc), rbend, want, count, 0, <<out, fuel - 1>>)
       ELSE [rc |-> rc, hint |-> hint, res |-> <<out, done>>, livelock |-> FALSE]

\* ensure_refblock_offset(): a missing refblock is created at its fixed place
\* (the first cluster of the range it covers) and references itself
EnsureRb(rc, rt, c) ==
  IF rt[RbIdx(c)] THEN [rc |-> rc, rt |-> rt]
  ELSE [rc |-> [x \in DOMAIN rc |-> IF x = RbStart(c) THEN rc[x] + 1 ELSE rc[x]],
        rt |-> [rt EXCEPT ![RbIdx(c)] = TRUE]]

TryAllocateFrom(rc, rt, hint, hc, count) ==
  LET e == EnsureRb(rc, rt, hc)
      l == Loop(e.rc, hint, hc, RbEnd(hc), count, count, 0, <<0, 4 * N>>)
  IN [rc |-> l.rc, rt |-> e.rt, hint |-> l.hint, res |-> l.res, livelock |-> l.livelock]

\* allocate_clusters(count)
RECURSIVE Allocate(_, _, _, _, _)
Allocate(rc, rt, hint, host, count) ==
  IF host >= N THEN [rc |-> rc, rt |-> rt, hint |-> hint, res |-> None, livelock |-> FALSE, nospace |-> TRUE]
  ELSE LET t == TryAllocateFrom(rc, rt, hint, host, count) IN
       IF t.livelock THEN [rc |-> t.rc, rt |-> t.rt, hint |-> t.hint, res |-> None, livelock |-> TRUE, nospace |-> FALSE]
       ELSE IF ~IsNone(t.res) THEN
         [rc |-> t.rc, rt |-> t.rt,
          hint |-> IF count = 1 THEN MaxI(t.hint, t.res[1] + 1) ELSE t.hint,
          res |-> t.res, livelock |-> FALSE, nospace |-> FALSE]
       ELSE Allocate(t.rc, t.rt, t.hint, RbEnd(host), count)

Alloc(rc, rt, hint, count) == Allocate(rc, rt, hint, hint, count)

---------------------------------------------------------------------------
(* The contract (C08) of one allocation on state (rc, rt, hint) *)
NewRbRefs(rt0, rt1) == { RBN * i : i \in { j \in DOMAIN rt0 : ~rt0[j] /\ rt1[j] } }
Contract(rc, rt, hint, count) ==
  LET a == Alloc(rc, rt, hint, count) IN
  /\ ~a.livelock
  /\ IsNone(a.res) =>
       \* nothing may be left allocated behind a failed attempt (except new refblocks)
       \A c \in Clusters : a.rc[c] = rc[c] + (IF c \in NewRbRefs(rt, a.rt) THEN 1 ELSE 0)
  /\ ~IsNone(a.res) =>
       LET s == a.res[1]
           n == a.res[2]
       IN /\ n >= 1 /\ n <= count /\ s >= 0 /\ s + n <= N
          \* handed out only what was free, and not a freshly created refblock
          /\ \A c \in s .. s + n - 1 : rc[c] = 0 /\ c \notin NewRbRefs(rt, a.rt)
          \* every refcount is what it was, plus the run, plus new refblocks' self references
          /\ \A c \in Clusters :
               a.rc[c] = rc[c] + (IF c >= s /\ c < s + n THEN 1 ELSE 0)
                               + (IF c \in NewRbRefs(rt, a.rt) THEN 1 ELSE 0)
=============================================================================
