SPECIFICATION Spec
INVARIANT EmitParOnce
CHECK_DEADLOCK FALSE
