#!/bin/bash
# run /repo's suite (hooks guard OFF) and compare with the 42 stable tests
cd /repo
out=$(cargo test --workspace --no-fail-fast --offline -- --test-threads 8 2>&1)
pass=$(echo "$out" | grep -E "^test .* \.\.\. ok$" | sed -E 's/^test (.*) \.\.\. ok$/\1/' | sed 's/.*:://' | sort -u)
want=$(python3 -c "
import json
for t in json.load(open('/root/.vp/BASELINE.json'))['stable_pass']: print(t.split('::')[-1])" | sort -u)
missing=$(comm -13 <(echo "$pass") <(echo "$want"))
n=$(echo "$pass" | wc -l)
echo "passed=$n"
if [ -n "$missing" ]; then echo "MISSING stable tests:"; echo "$missing"; exit 1; fi
echo "baseline ok (all 42 stable tests pass)"
