#!/bin/bash
# usage: mut_try.sh <patchdir> <PROP> [tier] -- apply a seeded change to /repo, run a check, undo
P=$1; PROP=$2; TIER=${3:-quick}
cd /repo && git apply $P/patch.diff || exit 3
cd /verif && ./check $PROP --tier $TIER 2>&1 | tail -${TAILN:-2}
rc=${PIPESTATUS[0]}
git -C /repo checkout -- . 
echo "rc=$rc"
