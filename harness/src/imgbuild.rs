//! Independent qcow2 image builder (written from the qcow2 specification;
//! shares no code with /repo).  Materialises an abstract image description
//! and returns the bytes together with the ground truth.
use crate::decode::{set_refcount, stamp_block, token, Geom, MAGIC};
use rand::rngs::StdRng;
use rand::seq::SliceRandom;
use rand::{Rng, SeedableRng};
use serde::{Deserialize, Serialize};

#[derive(Clone, Debug, Serialize, Deserialize, Default)]
pub struct GuestCluster {
    pub g: usize,
    /// "data" | "zero" | "zero_prealloc" | "comp"
    pub kind: String,
    /// write id of the layer that supplies the content (data/comp)
    #[serde(default)]
    pub wid: u32,
}

#[derive(Clone, Debug, Serialize, Deserialize, Default)]
pub struct ImageDesc {
    pub cb: u32,
    pub ro: u32,
    pub vclusters: usize,
    #[serde(default = "three")]
    pub version: u32,
    /// number of L1 entries listed in the header (None = as many as needed)
    #[serde(default)]
    pub l1_entries: Option<usize>,
    /// number of reftable clusters (None = minimum for the built file)
    #[serde(default)]
    pub rt_clusters: Option<usize>,
    /// shuffle host placement with this seed (0 = compact, in order)
    #[serde(default)]
    pub shuffle: u64,
    /// leave this many free holes between allocations
    #[serde(default)]
    pub holes: usize,
    #[serde(default)]
    pub clusters: Vec<GuestCluster>,
    #[serde(default)]
    pub backing: Option<String>,
    /// extra header extensions: (type, data bytes)
    #[serde(default)]
    pub extensions: Vec<(u32, Vec<u8>)>,
    /// virtual size not a multiple of the cluster size: subtract this many
    /// 512-byte sectors from vclusters*cluster_size
    #[serde(default)]
    pub size_minus_sectors: u64,
    /// extra clusters with refcount 1 that nothing references (leaks)
    #[serde(default)]
    pub leaks: usize,
    /// start compressed payloads at this byte offset inside their first
    /// host cluster (to force straddling)
    #[serde(default)]
    pub comp_start: usize,
    /// host file that ends inside its last cluster, at any byte: if that
    /// cluster is a data cluster only its first `eof_cut[0]` blocks carry
    /// data, the rest is zero, and the file ends `eof_cut[1]` (< block size)
    /// bytes behind them
    #[serde(default)]
    pub eof_cut: Option<(usize, usize)>,
}
fn three() -> u32 {
    3
}

#[derive(Clone, Debug, Serialize, Default)]
pub struct CompTruth {
    pub g: usize,
    pub off: u64,
    pub len: usize,
    pub ns: u64,
}

#[derive(Clone, Debug, Serialize, Default)]
pub struct Truth {
    /// per guest cluster: "u" unallocated, "d", "z", "zp", "c"
    pub kinds: Vec<String>,
    /// per guest 512-byte... per device block token is derived by caller;
    /// here: per guest cluster the wid that supplies content (0 = zeros/none)
    pub wids: Vec<u32>,
    pub comp: Vec<CompTruth>,
    /// (guest cluster, first block of it that reads as zeros) of an eof_cut
    pub tail_zero: Option<(usize, usize)>,
    pub host_clusters: usize,
    pub l1_cluster: usize,
    pub rt_cluster: usize,
}

fn put32(b: &mut [u8], o: usize, v: u32) {
    b[o..o + 4].copy_from_slice(&v.to_be_bytes());
}
fn put64(b: &mut [u8], o: usize, v: u64) {
    b[o..o + 8].copy_from_slice(&v.to_be_bytes());
}

/// content of guest cluster g supplied by layer `wid`: every `bs`-sized block
/// carries token(wid, guest_block)
pub fn fill_guest_cluster(buf: &mut [u8], g: usize, wid: u32, cs: usize, bs: usize) {
    let bpc = cs / bs;
    for b in 0..bpc {
        let gb = (g * bpc + b) as u32;
        stamp_block(&mut buf[b * bs..(b + 1) * bs], token(wid, gb));
    }
}

pub fn build(desc: &ImageDesc, bs: usize) -> (Vec<u8>, Truth) {
    let cs = 1usize << desc.cb;
    let l2n = cs / 8;
    let rbn = (cs * 8) >> desc.ro;
    let need_l1 = desc.vclusters.div_ceil(l2n).max(1);
    let l1_hdr = desc.l1_entries.unwrap_or(need_l1);
    let l1_clusters = (need_l1.max(l1_hdr) * 8).div_ceil(cs);

    // which L2 tables are needed
    let mut l2_needed: Vec<usize> = desc.clusters.iter().map(|c| c.g / l2n).collect();
    l2_needed.sort();
    l2_needed.dedup();
    // an L1 entry beyond the header's l1_size is not reachable: drop those
    l2_needed.retain(|i| *i < l1_hdr);

    // compressed payloads
    let mut comp_payloads: Vec<(usize, Vec<u8>)> = Vec::new();
    for c in desc.clusters.iter().filter(|c| c.kind == "comp") {
        let mut raw = vec![0u8; cs];
        fill_guest_cluster(&mut raw, c.g, c.wid, cs, bs);
        let z = miniz_oxide::deflate::compress_to_vec(&raw, 6);
        comp_payloads.push((c.g, z));
    }
    // relative placement of the payloads inside the compressed area: back to
    // back, but a host cluster never gets more references than the refcount
    // width can hold
    let rc_max: u64 = if desc.ro >= 6 { u64::MAX } else { (1u64 << (1u32 << desc.ro)) - 1 };
    let mut comp_rel: Vec<usize> = Vec::new();
    let mut area_refs: Vec<u64> = Vec::new();
    let mut pos = if comp_payloads.is_empty() { 0 } else { desc.comp_start };
    for (_, z) in comp_payloads.iter() {
        loop {
            let ns = ((pos & 511) + z.len() - 1) / 512;
            let first = pos / cs;
            let last = ((pos & !511) + (ns + 1) * 512 - 1) / cs;
            while area_refs.len() <= last {
                area_refs.push(0);
            }
            if (first..=last).all(|h| area_refs[h] < rc_max) {
                for h in first..=last {
                    area_refs[h] += 1;
                }
                break;
            }
            // start of the next cluster
            pos = (pos / cs + 1) * cs;
        }
        comp_rel.push(pos);
        pos += z.len();
    }
    let comp_clusters = area_refs.len();

    let n_data = desc
        .clusters
        .iter()
        .filter(|c| c.kind == "data" || c.kind == "zero_prealloc")
        .filter(|c| c.g / l2n < l1_hdr)
        .count();

    // host placement order
    #[derive(Clone, Debug, PartialEq)]
    enum Item {
        Rt(usize),
        Rb(usize),
        L1(usize),
        L2(usize),
        Data(usize),
        Comp(usize),
        Leak(usize),
    }
    let place_all = |n_rb: usize, rt_clusters: usize| -> (Vec<(Item, usize)>, usize) {
        // contiguous groups must stay contiguous: reftable, l1, comp area
        let mut groups: Vec<Vec<Item>> = Vec::new();
        groups.push((0..rt_clusters).map(Item::Rt).collect());
        for i in 0..n_rb {
            groups.push(vec![Item::Rb(i)]);
        }
        groups.push((0..l1_clusters).map(Item::L1).collect());
        for i in &l2_needed {
            groups.push(vec![Item::L2(*i)]);
        }
        for c in desc
            .clusters
            .iter()
            .filter(|c| (c.kind == "data" || c.kind == "zero_prealloc") && c.g / l2n < l1_hdr)
        {
            groups.push(vec![Item::Data(c.g)]);
        }
        if comp_clusters > 0 {
            groups.push((0..comp_clusters).map(Item::Comp).collect());
        }
        for i in 0..desc.leaks {
            groups.push(vec![Item::Leak(i)]);
        }
        let mut rng = StdRng::seed_from_u64(desc.shuffle);
        if desc.shuffle != 0 {
            groups.shuffle(&mut rng);
        }
        let mut place: Vec<(Item, usize)> = Vec::new();
        let mut next = 1usize;
        for grp in groups {
            if desc.holes > 0 && desc.shuffle != 0 && rng.gen_bool(0.4) {
                next += rng.gen_range(1..=desc.holes);
            }
            for it in grp {
                place.push((it, next));
                next += 1;
            }
        }
        (place, next)
    };
    let _ = n_data;
    let mut rt_clusters = desc.rt_clusters.unwrap_or(1);
    let mut n_rb = 1usize;
    let (place, next) = loop {
        let (pl, next) = place_all(n_rb, rt_clusters);
        if next > n_rb * rbn {
            n_rb += 1;
            continue;
        }
        if (n_rb * 8).div_ceil(cs) > rt_clusters {
            rt_clusters = (n_rb * 8).div_ceil(cs);
            continue;
        }
        break (pl, next);
    };
    let host_clusters = next;
    assert!(host_clusters <= n_rb * rbn, "builder: refblocks too few");
    let find = |it: &Item| -> usize { place.iter().find(|p| p.0 == *it).unwrap().1 };

    let mut img = vec![0u8; host_clusters * cs];
    let mut rc = vec![0u64; n_rb * rbn];
    rc[0] = 1; // header

    let rt_c = find(&Item::Rt(0));
    let l1_c = find(&Item::L1(0));
    for i in 0..rt_clusters {
        rc[rt_c + i] += 1;
    }
    for i in 0..l1_clusters {
        rc[l1_c + i] += 1;
    }
    for i in 0..desc.leaks {
        rc[find(&Item::Leak(i))] += 1;
    }

    let mut truth = Truth {
        kinds: vec!["u".to_string(); desc.vclusters],
        wids: vec![0; desc.vclusters],
        comp: Vec::new(),
        tail_zero: None,
        host_clusters,
        l1_cluster: l1_c,
        rt_cluster: rt_c,
    };

    // L2 tables + L1
    for i in &l2_needed {
        let c = find(&Item::L2(*i));
        rc[c] += 1;
        put64(&mut img, l1_c * cs + i * 8, (1u64 << 63) | (c * cs) as u64);
    }
    // compressed area
    let comp_base = if comp_clusters > 0 { find(&Item::Comp(0)) * cs } else { 0 };
    for c in &desc.clusters {
        let l1i = c.g / l2n;
        if l1i >= l1_hdr {
            continue;
        }
        let l2c = find(&Item::L2(l1i));
        let eoff = l2c * cs + (c.g % l2n) * 8;
        match c.kind.as_str() {
            "data" => {
                let d = find(&Item::Data(c.g));
                rc[d] += 1;
                put64(&mut img, eoff, (1u64 << 63) | (d * cs) as u64);
                fill_guest_cluster(&mut img[d * cs..(d + 1) * cs], c.g, c.wid, cs, bs);
                truth.kinds[c.g] = "d".into();
                truth.wids[c.g] = c.wid;
            }
            "zero" => {
                put64(&mut img, eoff, 1);
                truth.kinds[c.g] = "z".into();
            }
            "zero_prealloc" => {
                let d = find(&Item::Data(c.g));
                rc[d] += 1;
                put64(&mut img, eoff, (1u64 << 63) | (d * cs) as u64 | 1);
                // stale content that must never be shown
                fill_guest_cluster(&mut img[d * cs..(d + 1) * cs], c.g, 500, cs, bs);
                truth.kinds[c.g] = "zp".into();
            }
            "comp" => {
                let pi = comp_payloads.iter().position(|p| p.0 == c.g).unwrap();
                let z = &comp_payloads[pi].1;
                let comp_pos = comp_base + comp_rel[pi];
                let off = comp_pos as u64;
                img[comp_pos..comp_pos + z.len()].copy_from_slice(z);
                let ns = ((off & 511) + z.len() as u64 - 1) / 512;
                let x = 62 - (desc.cb - 8);
                put64(&mut img, eoff, (1u64 << 62) | (ns << x) | off);
                // each host cluster touched gets one reference
                let first = off as usize / cs;
                // the reader may fetch up to (ns+1) sectors
                let last = ((off & !511) + (ns + 1) * 512 - 1) as usize / cs;
                assert!(last < host_clusters);
                for h in first..=last {
                    rc[h] += 1;
                    assert!(rc[h] <= rc_max, "builder: refcount overflow");
                }
                truth.kinds[c.g] = "c".into();
                truth.wids[c.g] = c.wid;
                truth.comp.push(CompTruth {
                    g: c.g,
                    off,
                    len: z.len(),
                    ns,
                });
            }
            k => panic!("builder: unknown kind {k}"),
        }
    }
    // refblocks + reftable
    let rb_bytes = cs;
    for i in 0..n_rb {
        let c = find(&Item::Rb(i));
        rc[c] += 1;
        put64(&mut img, rt_c * cs + i * 8, (c * cs) as u64);
    }
    for i in 0..n_rb {
        let c = find(&Item::Rb(i));
        let blk = &mut img[c * cs..c * cs + rb_bytes];
        for j in 0..rbn {
            let v = rc[i * rbn + j];
            if v != 0 {
                set_refcount(blk, j, desc.ro, v);
            }
        }
    }
    // header
    let vsize = (desc.vclusters * cs) as u64 - desc.size_minus_sectors * 512;
    put32(&mut img, 0, MAGIC);
    put32(&mut img, 4, desc.version);
    put32(&mut img, 20, desc.cb);
    put64(&mut img, 24, vsize);
    put32(&mut img, 32, 0);
    put32(&mut img, 36, l1_hdr as u32);
    put64(&mut img, 40, (l1_c * cs) as u64);
    put64(&mut img, 48, (rt_c * cs) as u64);
    put32(&mut img, 56, rt_clusters as u32);
    let mut hlen = 72usize;
    if desc.version >= 3 {
        put32(&mut img, 96, desc.ro);
        put32(&mut img, 100, 112);
        hlen = 112;
    }
    // extensions
    let mut p = hlen;
    for (t, d) in &desc.extensions {
        put32(&mut img, p, *t);
        put32(&mut img, p + 4, d.len() as u32);
        img[p + 8..p + 8 + d.len()].copy_from_slice(d);
        p += 8 + d.len().div_ceil(8) * 8;
    }
    // end marker (8 zero bytes) is already there
    p += 8;
    if let Some(name) = &desc.backing {
        put64(&mut img, 8, p as u64);
        put32(&mut img, 16, name.len() as u32);
        img[p..p + name.len()].copy_from_slice(name.as_bytes());
    }
    if let Some((keep, extra)) = desc.eof_cut {
        let last = host_clusters - 1;
        let bpc = cs / bs;
        let g = desc.clusters.iter().find(|c| c.kind == "data" && c.g / l2n < l1_hdr && find(&Item::Data(c.g)) == last);
        if let (Some(c), true) = (g, keep >= 1 && keep < bpc && extra < bs) {
            let from = last * cs + keep * bs;
            for b in img[from..].iter_mut() {
                *b = 0;
            }
            img.truncate(from + extra);
            truth.tail_zero = Some((c.g, keep));
        }
    }
    (img, truth)
}

pub fn geom_of(desc: &ImageDesc, bsb: u32) -> Geom {
    Geom {
        cb: desc.cb,
        ro: if desc.version == 2 { 4 } else { desc.ro },
        bsb,
        vsize: ((desc.vclusters as u64) << desc.cb) - desc.size_minus_sectors * 512,
    }
}
