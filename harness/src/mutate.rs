//! C14: structured malformations applied to an independently built valid
//! image.  A mutation is (field, class) as enumerated by spec/HeaderAccept.tla.
use crate::decode::{parse_header, set_refcount, Geom};

fn p32(b: &mut [u8], o: usize, v: u32) {
    if b.len() >= o + 4 {
        b[o..o + 4].copy_from_slice(&v.to_be_bytes());
    }
}
fn p64(b: &mut [u8], o: usize, v: u64) {
    if b.len() >= o + 8 {
        b[o..o + 8].copy_from_slice(&v.to_be_bytes());
    }
}
fn g64(b: &[u8], o: usize) -> u64 {
    if b.len() >= o + 8 {
        u64::from_be_bytes(b[o..o + 8].try_into().unwrap())
    } else {
        0
    }
}

pub fn apply(img: &mut Vec<u8>, g: &Geom, field: &str, class: &str) {
    let h = parse_header(img).expect("mutate: base image must be valid");
    let cs = g.cs() as u64;
    let flen = img.len() as u64;
    let l1 = h.l1_off as usize;
    let rt = h.rt_off as usize;
    // first populated L1 entry / L2 table / first L2 entry in it
    let l1_idx = (0..h.l1_size as usize).find(|i| g64(img, l1 + i * 8) & 0x00ff_ffff_ffff_fe00 != 0);
    let l2_off = l1_idx.map(|i| (g64(img, l1 + i * 8) & 0x00ff_ffff_ffff_fe00) as usize);
    let l2_ent = l2_off.and_then(|o| (0..g.l2n()).find(|j| g64(img, o + j * 8) != 0).map(|j| o + j * 8));
    let rb_off = (g64(img, rt) & 0xffff_ffff_ffff_fe00) as usize;
    match (field, class) {
        ("magic", _) => p32(img, 0, 0x5146_49fa),
        ("version", "v0") => p32(img, 4, 0),
        ("version", "v1") => p32(img, 4, 1),
        ("version", "v4") => p32(img, 4, 4),
        ("version", _) => p32(img, 4, 0xffff_ffff),
        ("cbits", "c0") => p32(img, 20, 0),
        ("cbits", "c8") => p32(img, 20, 8),
        ("cbits", "c22") => p32(img, 20, 22),
        ("cbits", "c31") => p32(img, 20, 31),
        ("cbits", _) => p32(img, 20, 64),
        ("crypt", "aes") => p32(img, 32, 1),
        ("crypt", "luks") => p32(img, 32, 2),
        ("crypt", _) => p32(img, 32, 5),
        ("incompat", c) => {
            let bit = match c {
                "dirty" => 0,
                "corrupt" => 1,
                "extdata" => 2,
                "comptype" => 3,
                "extl2" => 4,
                "bit5" => 5,
                _ => 63,
            };
            let v = g64(img, 72) | (1u64 << bit);
            p64(img, 72, v);
            if c == "comptype" && img.len() > 104 {
                img[104] = 1;
            }
        }
        ("comp", _) => {
            if img.len() > 104 {
                img[104] = 1;
            }
        }
        ("rorder", "r7") => p32(img, 96, 7),
        ("rorder", "r31") => p32(img, 96, 31),
        ("rorder", "r64") => p32(img, 96, 64),
        ("rorder", _) => p32(img, 96, 0x8000_0000),
        ("hlen", "h0") => p32(img, 100, 0),
        ("hlen", "h72") => p32(img, 100, 72),
        ("hlen", "h105") => p32(img, 100, 105),
        ("hlen", "h4096") => p32(img, 100, 4096),
        ("hlen", _) => p32(img, 100, 0x8000_0000),
        ("l1off", "unaligned") => p64(img, 40, h.l1_off + 512.min(cs / 2).max(8)),
        ("l1off", "beyond") => p64(img, 40, (flen / cs + 4) * cs),
        ("l1off", "huge") => p64(img, 40, 1u64 << 62),
        ("l1off", _) => p64(img, 40, 0),
        ("rtoff", "unaligned") => p64(img, 48, h.rt_off + 512.min(cs / 2).max(8)),
        ("rtoff", "beyond") => p64(img, 48, (flen / cs + 4) * cs),
        ("rtoff", "huge") => p64(img, 48, 1u64 << 62),
        ("rtoff", _) => p64(img, 48, 0),
        ("l1size", "zero") => p32(img, 36, 0),
        // one entry fewer than the virtual size needs (at least one)
        ("l1size", "short") => p32(img, 36, ((h.size.div_ceil(cs * (cs / 8)) as u32).saturating_sub(1)).max(1)),
        // the byte size wraps in 32-bit arithmetic
        ("l1size", "wrap") => p32(img, 36, (1 << 29) + 1),
        ("l1size", _) => p32(img, 36, 0xffff_ffff),
        ("rtclus", "zero") => p32(img, 56, 0),
        // clusters << cluster_bits wraps in 32-bit arithmetic
        ("rtclus", "wrap") => p32(img, 56, 1 << (32 - g.cb)),
        ("rtclus", "wrap1") => p32(img, 56, (1 << (32 - g.cb)) + 1),
        ("rtclus", "top") => p32(img, 56, 0x8000_0000),
        ("rtclus", _) => p32(img, 56, 0xffff_ffff),
        ("size", "zero") => p64(img, 24, 0),
        ("size", "huge") => p64(img, 24, 1u64 << 63),
        ("size", _) => p64(img, 24, h.size - 100),
        ("backing", "offbeyond") => {
            p64(img, 8, cs + 16);
            p32(img, 16, 8);
        }
        ("backing", "toolong") => {
            p64(img, 8, 200);
            p32(img, 16, 5000);
        }
        ("backing", "overflow") => {
            p64(img, 8, u64::MAX - 3);
            p32(img, 16, 1000);
        }
        ("backing", _) => {
            p64(img, 8, 200);
            p32(img, 16, 4);
            if img.len() > 204 {
                img[200..204].copy_from_slice(&[0xff, 0xfe, 0x80, 0x00]);
            }
        }
        ("ext", c) => {
            let o = h.header_length as usize;
            match c {
                "lenbeyond" => {
                    p32(img, o, 0x1234_5678);
                    p32(img, o + 4, (cs as u32) * 2);
                }
                // the data ends behind the first 4 KiB (what is read first) but inside the first cluster
                "lengap" => {
                    p32(img, o, 0x1234_5678);
                    p32(img, o + 4, 4096 + 512);
                }
                "feat1" => {
                    p32(img, o, 0x6803_f857);
                    p32(img, o + 4, 49);
                    for k in 0..56 {
                        if img.len() > o + 8 + k {
                            img[o + 8 + k] = 1;
                        }
                    }
                }
                "feat49" => {
                    p32(img, o, 0x6803_f857);
                    p32(img, o + 4, 1);
                    if img.len() > o + 8 {
                        img[o + 8] = 0;
                    }
                }
                "unknownodd" => {
                    p32(img, o, 0xdead_beef);
                    p32(img, o + 4, 13);
                }
                "noend" => {
                    // unknown extensions back to back up to the end of the cluster
                    let mut p = o;
                    while p + 16 <= cs as usize && p + 16 <= img.len() {
                        p32(img, p, 0xdead_beef);
                        p32(img, p + 4, 8);
                        p += 16;
                    }
                }
                _ => {
                    p32(img, o, 0xdead_beef);
                    p32(img, o + 4, 0xffff_fff0);
                }
            }
        }
        ("snap", _) => {
            p32(img, 60, 1);
            p64(img, 64, cs * 3);
        }
        ("l1e", c) => {
            let i = l1_idx.unwrap_or(0);
            let o = l1 + i * 8;
            let cur = g64(img, o);
            let v = match c {
                "unaligned" => cur | 0x200.min(cs / 2),
                "beyond" => (1u64 << 63) | ((flen / cs + 7) * cs),
                "header" => 1u64 << 63,
                "reserved" => cur | (1 << 57) | 2,
                // aligned, inside the 56-bit offset field, far behind what the refcount table covers
                "uncovered" => (1u64 << 63) | (1u64 << 44),
                _ => (1u64 << 63) | h.l1_off,
            };
            p64(img, o, v);
        }
        ("l2e", c) => {
            if let Some(o) = l2_ent {
                let cur = g64(img, o);
                let x = 62 - (g.cb - 8);
                let v = match c {
                    "unaligned" => cur | 0x200.min(cs / 2),
                    "beyond" => (1u64 << 63) | ((flen / cs + 9) * cs),
                    "header" => 1u64 << 63,
                    "l1table" => (1u64 << 63) | h.l1_off,
                    "reserved" => cur | (1 << 58) | 4,
                    "uncovered" => (1u64 << 63) | (1u64 << 44),
                    "uncovtop" => (1u64 << 63) | (0x00ff_ffff_ffff_fe00u64 & !(cs - 1)),
                    "compeof" => (1u64 << 62) | (1u64 << x) | (flen + cs),
                    "comphuge" => (1u64 << 62) | (0x3fffu64 << x) & 0x3fff_ffff_ffff_ffff | (cs * 2 + 8),
                    _ => 1,
                };
                p64(img, o, v);
            }
        }
        ("rte", c) => {
            let cur = g64(img, rt);
            let v = match c {
                "unaligned" => cur | 0x200.min(cs / 2),
                "beyond" => (flen / cs + 11) * cs,
                "reserved" => cur | 3,
                _ => 0,
            };
            p64(img, rt, v);
        }
        ("rbe", c) => {
            if rb_off + g.cs() <= img.len() {
                let blk = &mut img[rb_off..rb_off + g.cs()];
                let max = if g.ro >= 6 { u64::MAX } else { (1u64 << (1 << g.ro)) - 1 };
                match c {
                    "zeroused" => {
                        for i in 1..8 {
                            set_refcount(blk, i, g.ro, 0);
                        }
                    }
                    _ => {
                        for i in 0..g.rbn().min(64) {
                            set_refcount(blk, i, g.ro, max);
                        }
                    }
                }
            }
        }
        ("trunc", "hdr") => img.truncate(60),
        ("trunc", "tables") => img.truncate(g.cs() + 100),
        ("trunc", _) => img.truncate(0),
        _ => {}
    }
}
