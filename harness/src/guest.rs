//! C19 (second half): a guest-level history executed on the real backends
//! (real files) yields the same guest content as on SimFile.
use crate::decode::*;
use crate::scen::{img_bytes, Op, Runner, Scenario};
use qcow2_rs::dev::{Qcow2Dev, Qcow2DevParams};
use qcow2_rs::helpers::Qcow2IoBuf;
use qcow2_rs::ops::Qcow2IoOps;
use serde_json::{json, Value};
use std::io::BufRead;
use std::path::Path;

async fn drive<T: Qcow2IoOps>(dev: &Qcow2Dev<T>, sc: &Scenario, g: &Geom) -> Result<Vec<i64>, String> {
    let bs = g.bs();
    let mut wid = 10u32;
    for st in sc.steps.iter() {
        match st {
            Op::Write { gb, n } => {
                let mut buf = Qcow2IoBuf::<u8>::new(*n as usize * bs);
                for i in 0..*n as usize {
                    stamp_block(&mut buf[i * bs..(i + 1) * bs], token(wid, *gb as u32 + i as u32));
                }
                wid += 1;
                dev.write_at(&buf, gb << g.bsb).await.map_err(|e| format!("write: {e:?}"))?;
            }
            Op::Discard { gb, n } => {
                wid += 1;
                dev.discard(gb << g.bsb, n << g.bsb).await.map_err(|e| format!("discard: {e:?}"))?;
            }
            Op::Flush => dev.flush_meta().await.map_err(|e| format!("flush: {e:?}"))?,
            Op::Fsync => dev.fsync_range(0, g.vsize as usize).await.map_err(|e| format!("fsync: {e:?}"))?,
            Op::Shrink => dev.shrink_caches().await.map_err(|e| format!("shrink: {e:?}"))?,
            _ => {}
        }
    }
    // final sweep
    let mut toks = Vec::new();
    let vb = g.vblocks();
    let mut gb = 0;
    while gb < vb {
        let n = (vb - gb).min(64);
        let mut buf = Qcow2IoBuf::<u8>::new(n * bs);
        buf.fill(POISON);
        let k = dev.read_at(&mut buf, (gb as u64) << g.bsb).await.map_err(|e| format!("read: {e:?}"))?;
        if k != n * bs {
            return Err(format!("short read {k} of {}", n * bs));
        }
        toks.extend(buf.chunks(bs).map(tok_i));
        gb += n;
    }
    Ok(toks)
}

pub fn run(inp: &str, dir: &str) -> i32 {
    std::fs::create_dir_all(dir).unwrap();
    let path = Path::new(dir).join("guest.qcow2");
    let mut n = 0;
    let mut nbad = 0;
    let mut not_ex = serde_json::Map::new();
    for line in std::io::BufReader::new(std::fs::File::open(inp).expect("open")).lines() {
        let line = line.unwrap();
        if line.trim().is_empty() {
            continue;
        }
        let sc: Scenario = serde_json::from_str(&line).expect("scenario");
        n += 1;
        let bs = 1usize << sc.bsb;
        // reference: SimFile
        let mut simsc = sc.clone();
        simsc.steps.push(Op::Sweep);
        let mut r = Runner::new(simsc, 1).expect("runner");
        r.run();
        let mut ref_toks: Vec<i64> = Vec::new();
        {
            let s = r.sink.borrow();
            let rets: Vec<&Value> = s.ev.iter().filter(|v| v["e"] == "Ret" && v["toks"].as_array().map(|a| !a.is_empty()).unwrap_or(false)).collect();
            let chunks = (r.geom.vblocks() + 63) / 64;
            for v in rets.iter().skip(rets.len().saturating_sub(chunks)) {
                ref_toks.extend(v["toks"].as_array().unwrap().iter().map(|t| t.as_i64().unwrap()));
            }
        }
        let g = r.geom;
        let (bytes, _, _) = img_bytes(&sc.images[0], bs, None);
        let p = Qcow2DevParams::new(sc.bsb as u8, sc.params.rb, sc.params.l2, false, false);
        let mut bad = Vec::new();
        let mut cmp = |be: &str, res: Result<Vec<i64>, String>, bad: &mut Vec<String>| match res {
            Ok(t) => {
                if t != ref_toks {
                    let k = t.iter().zip(ref_toks.iter()).position(|(a, b)| a != b);
                    bad.push(format!("{be}: guest content differs from SimFile at block {k:?}"));
                }
            }
            Err(e) => bad.push(format!("{be}: {e}")),
        };
        // tokio
        std::fs::write(&path, &bytes).unwrap();
        let rt = tokio::runtime::Runtime::new().unwrap();
        let res = rt.block_on(async {
            let dev = qcow2_rs::utils::qcow2_setup_dev_tokio(&path, &p).await.map_err(|e| format!("open: {e:?}"))?;
            drive(&dev, &sc, &g).await
        });
        cmp("tokio", res, &mut bad);
        // sync
        std::fs::write(&path, &bytes).unwrap();
        let rt = tokio::runtime::Builder::new_current_thread().build().unwrap();
        let res = rt.block_on(async {
            let dev = qcow2_rs::utils::qcow2_setup_dev_sync(&path, &p).map_err(|e| format!("open: {e:?}"))?;
            dev.qcow2_prep_io().await.map_err(|e| format!("prep: {e:?}"))?;
            drive(&dev, &sc, &g).await
        });
        cmp("sync", res, &mut bad);
        // io_uring
        std::fs::write(&path, &bytes).unwrap();
        let (p2, sc2, path2) = (p.clone(), sc.clone(), path.clone());
        let res = std::panic::catch_unwind(move || {
            tokio_uring::start(async {
                let dev = qcow2_rs::utils::qcow2_setup_dev_uring(&path2, &p2).await.map_err(|e| format!("open: {e:?}"))?;
                drive(&dev, &sc2, &g).await
            })
        });
        match res {
            Ok(r) => cmp("uring", r, &mut bad),
            Err(_) => {
                not_ex.insert("uring".into(), json!("io_uring is not available"));
            }
        }
        if !bad.is_empty() {
            nbad += 1;
            println!("{}", json!({"scenario": sc.name, "bad": bad}));
        }
    }
    let _ = std::fs::remove_file(&path);
    println!("{}", json!({"summary": true, "histories": n, "bad": nbad, "not_exercised": not_ex}));
    0
}
