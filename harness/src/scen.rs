//! Scenario runner: executes an operation history on the real Qcow2Dev over
//! SimFile under the deterministic executor and records the ndjson trace.
use crate::decode::*;
use crate::exec::*;
use crate::imgbuild::{self, ImageDesc};
use crate::sim::*;
use qcow2_rs::dev::{Qcow2Dev, Qcow2DevParams};
use qcow2_rs::helpers::Qcow2IoBuf;
use qcow2_rs::meta::Qcow2Header;
use serde::{Deserialize, Serialize};
use serde_json::{json, Value};
use std::cell::RefCell;
use std::path::PathBuf;
use std::rc::Rc;

#[derive(Clone, Debug, Serialize, Deserialize, Default)]
pub struct Params {
    /// (slice bits, cache bytes)
    #[serde(default)]
    pub l2: Option<(u8, usize)>,
    #[serde(default)]
    pub rb: Option<(u8, usize)>,
}

#[derive(Clone, Debug, Serialize, Deserialize)]
#[serde(tag = "op")]
pub enum Op {
    #[serde(rename = "write")]
    Write { gb: u64, n: u64 },
    #[serde(rename = "read")]
    Read { gb: u64, n: u64 },
    /// discard in units of blocks
    #[serde(rename = "discard")]
    Discard { gb: u64, n: u64 },
    /// raw byte arguments (decimal strings, may be anything up to u64::MAX)
    #[serde(rename = "write_raw")]
    WriteRaw { off: String, len: String },
    #[serde(rename = "read_raw")]
    ReadRaw { off: String, len: String },
    #[serde(rename = "discard_raw")]
    DiscardRaw { off: String, len: String },
    #[serde(rename = "flush")]
    Flush,
    #[serde(rename = "fsync")]
    Fsync,
    #[serde(rename = "shrink")]
    Shrink,
    #[serde(rename = "sweep")]
    Sweep,
    #[serde(rename = "check")]
    Check,
    /// debugging aid: record get_mapping() of a guest block as a Note
    #[serde(rename = "map")]
    Map { gb: u64 },
    /// if need_flush_meta() is false: read everything, reopen, read everything again
    #[serde(rename = "probe")]
    Probe,
    /// Alloc.tla replay: the in-ram refcount of the first `n` host clusters
    #[serde(rename = "rcdump")]
    RcDump { n: usize },
    /// C09: get_mapping() of every guest cluster / the derived geometry
    #[serde(rename = "mapall")]
    MapAll,
    #[serde(rename = "info")]
    Info,
    /// allocator histories (hook H3): allocate `n` clusters / free the
    /// `idx`-th live allocation made through this op
    #[serde(rename = "alloc")]
    Alloc { n: usize },
    #[serde(rename = "free_alloc")]
    FreeAlloc { idx: usize },
    #[serde(rename = "reopen")]
    Reopen {
        #[serde(default)]
        params: Option<Params>,
        #[serde(default)]
        bsb: Option<u32>,
        #[serde(default)]
        ro: bool,
    },
    /// run the listed calls concurrently under the scenario's policy
    #[serde(rename = "par")]
    Par { ops: Vec<Op> },
    /// faults
    #[serde(rename = "fail_next")]
    FailNext { nth: usize, #[serde(default)] partial: bool },
    /// outage: every request from the nth one (counted from now) fails, until `recover`
    #[serde(rename = "fail_from")]
    FailFrom { nth: usize },
    #[serde(rename = "fail_all")]
    FailAll { on: bool },
    #[serde(rename = "recover")]
    Recover { #[serde(default = "five")] retries: usize },
}
fn five() -> usize {
    5
}

#[derive(Clone, Debug, Serialize, Deserialize)]
#[serde(tag = "kind")]
pub enum ImageSrc {
    /// formatted by the library's own format_qcow2
    #[serde(rename = "format")]
    Format { cb: u32, ro: u32, vclusters: usize },
    /// materialised by the independent builder; `backing` = next layer
    #[serde(rename = "build")]
    Build { desc: ImageDesc },
    /// bytes of an existing file (C20: output of `rqcow2 format`); judged like
    /// a library-formatted image
    #[serde(rename = "file")]
    File { path: String, cb: u32, ro: u32, vsize: u64 },
}

#[derive(Clone, Debug, Serialize, Deserialize, Default)]
pub struct RcPattern {
    pub used: Vec<usize>,
    pub rb1: bool,
    pub hint: u64,
}

#[derive(Clone, Debug, Serialize, Deserialize)]
pub struct Sched {
    /// fifo | random | pct | script | rel
    pub policy: String,
    #[serde(default)]
    pub seed: u64,
    #[serde(default)]
    pub script: Vec<usize>,
    #[serde(default)]
    pub rel: Vec<(char, usize)>,
}
impl Default for Sched {
    fn default() -> Self {
        Sched {
            policy: "fifo".into(),
            seed: 0,
            script: vec![],
            rel: vec![],
        }
    }
}

#[derive(Clone, Debug, Serialize, Deserialize)]
pub struct Scenario {
    #[serde(default)]
    pub name: String,
    pub bsb: u32,
    /// image chain, top first
    pub images: Vec<ImageSrc>,
    #[serde(default)]
    pub params: Params,
    #[serde(default)]
    pub sched: Sched,
    #[serde(default)]
    pub punch_unsupported: bool,
    #[serde(default)]
    pub top_ro: bool,
    pub steps: Vec<Op>,
    /// sample need_flush_meta()/ram state at every scheduler step
    #[serde(default)]
    pub sample_flag: bool,
    /// record the in-ram metadata view (hook H1) at every scheduler step
    #[serde(default)]
    pub sample_ram: bool,
    /// Alloc.tla replay: refcount pattern imposed on the built image (clusters
    /// listed are given refcount 1, all others 0) and the allocator's hint
    /// schedule sweep: run the scenario under this many further schedule
    /// seeds and keep the first run that hangs or panics (else the base run)
    #[serde(default)]
    pub sched_sweep: usize,
    #[serde(default)]
    pub rc_pattern: Option<RcPattern>,
    /// the n-th backend request of the FIRST qcow2_prep_io() fails; the call is
    /// then repeated on the same device with the backend working again
    #[serde(default)]
    pub prep_fault: Option<usize>,
    /// the allocator's free hint (host cluster index) is put here after
    /// every open: reaches far host offsets with small images (hook H4)
    #[serde(default)]
    pub alloc_hint: Option<u64>,
    /// C14: structured malformations (field, class) applied to the top image
    #[serde(default)]
    pub mutations: Vec<(String, String)>,
    /// C14: the spec's verdict whether open must refuse this image
    #[serde(default)]
    pub must_refuse: bool,
    /// C09: only the image structure is of interest (huge virtual sizes):
    /// the flat model gets no guest blocks
    #[serde(default)]
    pub format_only: bool,
    /// C08: the host file must not grow beyond this many clusters (0 = no bound)
    #[serde(default)]
    pub bound_clusters: usize,
}

pub struct Sink {
    pub ev: Vec<Value>,
    pub intern: Interner,
    pub geom: Geom,
    pub maxb: Vec<usize>,
}

impl Sink {
    pub fn push(&mut self, v: Value) {
        self.ev.push(v);
    }
    fn blocks(&mut self, dev: usize, off: u64, bytes: &[u8]) -> Vec<Value> {
        let v = self.intern.classify_range(dev, off, bytes);
        v.iter().map(|b| b.json()).collect()
    }
}

pub type SinkRef = Rc<RefCell<Sink>>;

struct TraceObs {
    sink: SinkRef,
}

fn small_blk(off: u64, bsb: u32) -> i64 {
    let b = off >> bsb;
    if b >= HUGE as u64 {
        HUGE
    } else {
        b as i64
    }
}

impl Observer for TraceObs {
    fn on_issue(&mut self, w: &World, r: &Req) {
        let mut s = self.sink.borrow_mut();
        let g = s.geom;
        let bs = g.bs() as u64;
        let nblk = (r.len as u64).div_ceil(bs);
        let bl = match r.kind {
            Kind::Write => s.blocks(r.dev, r.off, &r.data),
            _ => vec![],
        };
        let blk = small_blk(r.off, g.bsb);
        if r.kind == Kind::Write || r.kind == Kind::Punch {
            let end = (blk as usize).saturating_add(nblk as usize);
            if blk < HUGE && end < (1 << 24) {
                while s.maxb.len() <= r.dev {
                    s.maxb.push(0);
                }
                if s.maxb[r.dev] < end {
                    s.maxb[r.dev] = end;
                }
            }
        }
        let _ = w;
        let al = if r.kind == Kind::Fsync {
            json!([0, 0, 0])
        } else {
            json!([
                r.off % bs,
                (r.len as u64) % bs,
                if r.kind == Kind::Punch { 0 } else { (r.buf_addr as u64) % bs }
            ])
        };
        s.push(json!({"e":"Req","id":r.id,"t":r.task,"dev":r.dev,"k":r.kind.code(),
            "blk": blk, "n": if r.kind == Kind::Fsync {0} else {nblk.min(HUGE as u64)},
            "al": al, "bl": bl}));
    }
    fn on_done(&mut self, w: &World, r: &Req, faulted: bool) {
        // an injected fault excuses the call; "punch unsupported" does not
        let inj = if faulted && !(w.fault.punch_unsupported && r.kind == Kind::Punch
            && !w.fault.fail_all && !w.fault.by_ordinal.contains_key(&r.id)) {1} else {0};
        let mut s = self.sink.borrow_mut();
        let g = s.geom;
        let bs = g.bs();
        match (&r.state, r.kind) {
            (ReqState::Ok(n), Kind::Read) => {
                let bl = s.blocks(r.dev, r.off, &r.data[..*n]);
                s.push(json!({"e":"Done","id":r.id,"res":"ok","n": n.div_ceil(bs), "bl": bl, "inj":0}));
            }
            (ReqState::Ok(_), _) => {
                s.push(json!({"e":"Done","id":r.id,"res":"ok","n":0,"bl":[],"inj":0}));
            }
            _ => {
                // failed; a partial write reports what reached the file
                let bl = match &r.applied {
                    Some((off, d)) if !d.is_empty() => s.blocks(r.dev, *off, d),
                    _ => vec![],
                };
                s.push(json!({"e":"Done","id":r.id,"res":"err","n":bl.len(),"bl":bl,"inj":inj}));
            }
        }
    }
}

pub struct Runner {
    pub sc: Scenario,
    pub world: WorldRef,
    pub sink: SinkRef,
    pub geom: Geom,
    pub dev: Option<Qcow2Dev<SimFile>>,
    pub next_call: usize,
    pub next_wid: u32,
    pub outcome: Vec<String>,
    pub schedules: Vec<Vec<Choice>>,
    pub prep_fault_done: bool,
    pub probe_mismatch: bool,
    pub stuck: bool,
    pub panicked: bool,
    pub dev_ro: bool,
    pub max_conc: usize,
    /// live allocations made through the allocator hook: (offset, clusters)
    pub allocs: Rc<RefCell<Vec<(u64, usize)>>>,
}

fn mk_params(bsb: u32, p: &Params, ro: bool) -> Qcow2DevParams {
    Qcow2DevParams::new(bsb as u8, p.rb, p.l2, ro, false)
}

/// impose a refcount pattern on a compactly built image (header, reftable,
/// refblock 0, L1 at clusters 0..3): used clusters get refcount 1
pub fn apply_rc_pattern(img: &mut Vec<u8>, g: &Geom, pt: &RcPattern) {
    let h = parse_header(img).expect("rc_pattern: valid base image");
    let cs = g.cs();
    let rbn = g.rbn();
    let rt = h.rt_off as usize;
    let rb0 = (u64::from_be_bytes(img[rt..rt + 8].try_into().unwrap()) & !0x1ff) as usize;
    for c in 0..rbn {
        set_refcount(&mut img[rb0..rb0 + cs], c, g.ro, if pt.used.contains(&c) { 1 } else { 0 });
    }
    if pt.rb1 {
        // second refblock at its fixed place: the first cluster of its range
        let off = rbn * cs;
        if img.len() < off + cs {
            img.resize(off + cs, 0);
        }
        img[rt + 8..rt + 16].copy_from_slice(&(off as u64).to_be_bytes());
        for c in 0..rbn {
            set_refcount(&mut img[off..off + cs], c, g.ro, if pt.used.contains(&(rbn + c)) { 1 } else { 0 });
        }
    }
}

thread_local! {
    /// set when the library's formatter failed for the image being prepared
    pub static FORMAT_FAIL: RefCell<Option<String>> = const { RefCell::new(None) };
}

pub fn img_bytes(src: &ImageSrc, bs: usize, backing: Option<String>) -> (Vec<u8>, Option<imgbuild::Truth>, Geom) {
    match src {
        ImageSrc::Format { cb, ro, vclusters } => {
            let size = (*vclusters as u64) << cb;
            let (rc_t, rc_b, _) =
                Qcow2Header::calculate_meta_params(size, *cb as usize, *ro as u8, bs);
            let clusters = 1 + rc_t.1 + rc_b.1;
            let img_size = ((clusters as usize) << cb) + bs;
            let mut buf = vec![0u8; img_size];
            // a panic or an error of the formatter is data for C09
            let r = std::panic::catch_unwind(std::panic::AssertUnwindSafe(|| {
                Qcow2Header::format_qcow2(&mut buf, size, *cb as usize, *ro as u8, bs)
            }));
            match r {
                Ok(Ok(())) => {}
                Ok(Err(e)) => FORMAT_FAIL.with(|f| *f.borrow_mut() = Some(format!("error: {e:?}"))),
                Err(_) => FORMAT_FAIL.with(|f| *f.borrow_mut() = Some("panic".to_string())),
            }
            (
                buf,
                None,
                Geom {
                    cb: *cb,
                    ro: *ro,
                    bsb: bs.trailing_zeros(),
                    vsize: size,
                },
            )
        }
        ImageSrc::File { path, cb, ro, vsize } => {
            let buf = std::fs::read(path).unwrap_or_default();
            (
                buf,
                None,
                Geom {
                    cb: *cb,
                    ro: *ro,
                    bsb: bs.trailing_zeros(),
                    vsize: *vsize,
                },
            )
        }
        ImageSrc::Build { desc } => {
            let mut d = desc.clone();
            if d.backing.is_none() {
                d.backing = backing;
            }
            let (b, t) = imgbuild::build(&d, bs);
            let g = imgbuild::geom_of(&d, bs.trailing_zeros());
            (b, Some(t), g)
        }
    }
}

/// expected content (tokens per guest block of the top image) and kind per
/// guest cluster of a chain, from the builder's ground truth
pub fn chain_truth(
    truths: &[(Option<imgbuild::Truth>, Geom)],
) -> (Vec<i64>, Vec<String>) {
    let top = truths[0].1;
    chain_truth_sized(truths, top, u64::MAX)
}

/// content the chain `truths` supplies for the blocks of a device with
/// geometry `top`; the chain's first layer is `lim` bytes long
pub fn chain_truth_sized(
    truths: &[(Option<imgbuild::Truth>, Geom)],
    top: Geom,
    lim: u64,
) -> (Vec<i64>, Vec<String>) {
    let top = &top;
    let _ = lim;
    let vb = top.vblocks();
    let bpc = top.bpc();
    let mut toks = vec![0i64; vb];
    let mut kinds = vec!["u".to_string(); top.vclusters()];
    for gb in 0..vb {
        let g = gb / bpc;
        // walk down the chain
        for (li, (t, geom)) in truths.iter().enumerate() {
            let k = match t {
                Some(t) => {
                    // geometry of lower layers may differ in cluster size
                    let lg = ((gb as u64) << top.bsb) >> geom.cb;
                    if ((gb as u64) << top.bsb) >= geom.vsize {
                        // beyond a shorter backing image: zeros
                        ("end".to_string(), 0)
                    } else {
                        (t.kinds[lg as usize].clone(), t.wids[lg as usize])
                    }
                }
                None => ("u".to_string(), 0),
            };
            match k.0.as_str() {
                "d" | "c" => {
                    toks[gb] = token(k.1, gb as u32) as i64;
                    if let Some(Some((g0, kb))) = t.as_ref().map(|t| t.tail_zero) {
                        let off = (gb as u64) << top.bsb;
                        if (off >> geom.cb) as usize == g0 && ((off & ((1u64 << geom.cb) - 1)) >> top.bsb) as usize >= kb {
                            toks[gb] = 0;
                        }
                    }
                    if li == 0 {
                        kinds[g] = k.0.clone();
                    } else if kinds[g] == "u" {
                        kinds[g] = "b".into();
                    }
                    break;
                }
                "z" | "zp" => {
                    if li == 0 {
                        kinds[g] = k.0.clone();
                    }
                    break;
                }
                "end" => break,
                _ => {}
            }
        }
    }
    (toks, kinds)
}

/// The in-ram view of the metadata as an overlay on the visible file:
/// header fields, L1 table, refcount table, cached slices; clusters in the
/// new-cluster set are (logically) zero
pub fn ram_event(snap: &qcow2_rs::dev::VerifSnapshot, world: &WorldRef, sink: &SinkRef) -> Value {
    let w = world.borrow();
    let file = &w.files[0].data;
    let mut s = sink.borrow_mut();
    let g = s.geom;
    let bs = g.bs();
    let mut img = file.clone();
    let mut touched: Vec<(usize, usize)> = Vec::new();
    let mut put = |img: &mut Vec<u8>, off: u64, d: &[u8], touched: &mut Vec<(usize, usize)>| {
        let off = off as usize;
        if off > (1 << 28) {
            return;
        }
        if img.len() < off + d.len() {
            img.resize((off + d.len()).div_ceil(bs) * bs, 0);
        }
        img[off..off + d.len()].copy_from_slice(d);
        touched.push((off / bs, (off + d.len()).div_ceil(bs)));
    };
    let complete = snap.l1.is_some() && snap.reftable.is_some() && snap.new_clusters.is_some()
        && snap.busy_slices == 0 && snap.l1_offset.is_some() && snap.reftable_offset.is_some();
    if let Some(nc) = &snap.new_clusters {
        for c in nc {
            let z = vec![0u8; g.cs()];
            put(&mut img, c << g.cb, &z, &mut touched);
        }
    }
    if img.len() >= 72 {
        let mut h = img[..bs.min(img.len())].to_vec();
        if let Some(o) = snap.l1_offset {
            h[36..40].copy_from_slice(&(snap.l1_entries as u32).to_be_bytes());
            h[40..48].copy_from_slice(&o.to_be_bytes());
        }
        if let Some(o) = snap.reftable_offset {
            h[48..56].copy_from_slice(&o.to_be_bytes());
            h[56..60].copy_from_slice(&(snap.reftable_clusters as u32).to_be_bytes());
        }
        put(&mut img, 0, &h, &mut touched);
    }
    if let (Some(o), Some(d)) = (snap.l1_offset, &snap.l1) {
        put(&mut img, o, d, &mut touched);
    }
    if let (Some(o), Some(d)) = (snap.reftable_offset, &snap.reftable) {
        put(&mut img, o, d, &mut touched);
    }
    for sl in snap.l2_slices.iter().chain(snap.rb_slices.iter()) {
        if let Some(o) = sl.offset {
            put(&mut img, o, &sl.data, &mut touched);
        }
    }
    let mut ov = serde_json::Map::new();
    ov.insert("n".into(), json!(["z", 0]));
    let mut maxb = 0;
    for (a, b) in touched {
        for blk in a..b {
            let cur = &img[blk * bs..(blk + 1) * bs];
            let same = file.len() >= (blk + 1) * bs && &file[blk * bs..(blk + 1) * bs] == cur;
            let beyond_zero = file.len() < (blk + 1) * bs && cur.iter().all(|x| *x == 0) && file.len() <= blk * bs;
            if !same && !beyond_zero {
                let ab = s.intern.classify(cur, blk == 0);
                ov.insert(blk.to_string(), ab.json());
                maxb = maxb.max(blk + 1);
            }
        }
    }
    while s.maxb.is_empty() {
        s.maxb.push(0);
    }
    if s.maxb[0] < maxb {
        s.maxb[0] = maxb;
    }
    json!({"e":"Ram","ov":ov,"complete": if complete {1} else {0},
           "hint": snap.free_cluster_offset >> g.cb, "nf": if snap.need_flush {1} else {0},
           "dirty": snap.l2_slices.iter().chain(snap.rb_slices.iter()).filter(|x| x.dirty).count()})
}

impl Runner {
    pub fn new(sc: Scenario, next_id: i64) -> Result<Self, String> {
        let bs = 1usize << sc.bsb;
        let world = Rc::new(RefCell::new(World::new(bs)));
        let mut truths = Vec::new();
        let n = sc.images.len();
        let mut files = Vec::new();
        for (i, src) in sc.images.iter().enumerate() {
            let backing = if i + 1 < n {
                Some(format!("layer{}-a-backing-file-name-of-some-length.qcow2", i + 1))
            } else {
                None
            };
            let (mut b, t, g) = img_bytes(src, bs, backing);
            if i == 0 {
                if let Some(pt) = &sc.rc_pattern {
                    apply_rc_pattern(&mut b, &g, pt);
                }
                for (f, c) in sc.mutations.iter() {
                    if b.len() >= 72 && parse_header(&b).is_some() {
                        crate::mutate::apply(&mut b, &g, f, c);
                    }
                }
            }
            files.push(b);
            truths.push((t, g));
        }
        let geom = truths[0].1;
        let sink = Rc::new(RefCell::new(Sink {
            ev: Vec::new(),
            intern: Interner::new(geom, next_id),
            geom,
            maxb: vec![],
        }));
        // Reset event
        {
            let mut s = sink.borrow_mut();
            let mut devs = Vec::new();
            for (i, f) in files.iter().enumerate() {
                let mut padded = f.clone();
                let r = padded.len() % bs;
                if r != 0 {
                    padded.resize(padded.len() + bs - r, 0);
                }
                let bl = s.intern.classify_range(i, 0, &padded);
                let mut img = serde_json::Map::new();
                img.insert("n".into(), json!(["z", 0]));
                for (j, b) in bl.iter().enumerate().filter(|(_, b)| b.k != 'z') {
                    img.insert(j.to_string(), b.json());
                }
                devs.push(json!({"ro": if i > 0 || sc.top_ro {1} else {0}, "flen": bl.len(), "img": img}));
                while s.maxb.len() <= i {
                    s.maxb.push(0);
                }
                s.maxb[i] = bl.len();
            }
            let (mut toks, mut kinds) = if sc.format_only { (vec![], vec![]) } else { chain_truth(&truths) };
            let _ = (&mut toks, &mut kinds);
            let btok: Vec<i64> = if truths.len() > 1 {
                // what the chain below the top image supplies, in the top's block units
                let mut lower: Vec<(Option<imgbuild::Truth>, Geom)> = truths[1..].to_vec();
                // evaluate the lower chain over the top's virtual size
                let mut g0 = lower[0].1;
                let topg = truths[0].1;
                let low_vsize = g0.vsize;
                g0.bsb = topg.bsb;
                lower[0].1 = g0;
                let (t, _) = chain_truth_sized(&lower, topg, low_vsize);
                t
            } else if sc.format_only {
                vec![]
            } else {
                vec![0; geom.vblocks()]
            };
            let comp: Vec<Value> = match &truths[0].0 {
                Some(t) => t
                    .comp
                    .iter()
                    .map(|c| {
                        let cs = geom.cs() as u64;
                        let first = (c.off & !511) >> geom.bsb;
                        let last = ((c.off & !511) + (c.ns + 1) * 512 - 1) >> geom.bsb;
                        json!({"g": c.g, "cc": c.off / cs, "cs": (c.off % cs) / 512, "cbo": c.off % 512,
                               "ns": c.ns, "b0": first, "b1": last})
                    })
                    .collect(),
                None => vec![],
            };
            let gj = json!({"cb": geom.cb, "ro": geom.ro, "bsb": geom.bsb, "bpc": geom.bpc(),
                "vblocks": if sc.format_only {0} else {geom.vblocks()}, "vclusters": if sc.format_only {0} else {geom.vclusters()}, "l2n": geom.l2n(),
                "rbn": geom.rbn(), "epb": geom.bs()/8, "rpb": (geom.bs()*8) >> geom.ro,
                "bsz": geom.bs(), "vszb": crate::decode::small(geom.vsize >> 9)});
            s.push(json!({"e":"Reset","name": sc.name, "g": gj, "devs": devs, "init": toks, "btok": btok, "maxb": 0,
                "src": match &sc.images[0] { ImageSrc::Format{..} | ImageSrc::File{..} => "format", _ => "build" },
                "bound": sc.bound_clusters * geom.bpc(),
                "mal": sc.mutations.iter().map(|m| json!([m.0, m.1])).collect::<Vec<_>>(),
                "lenient": if sc.mutations.is_empty() {0} else {1},
                "leaks": match &sc.images[0] {
                    // clusters of the L1 table behind the entries the header lists count as leaked
                    ImageSrc::Build { desc } => {
                        let cs = 1usize << desc.cb;
                        let need = desc.vclusters.div_ceil(cs / 8).max(1);
                        let hdr = desc.l1_entries.unwrap_or(need);
                        desc.leaks + (need.max(hdr) * 8).div_ceil(cs) - (hdr * 8).div_ceil(cs).max(1).min((need.max(hdr) * 8).div_ceil(cs))
                    }
                    _ => 0,
                },
                "refuse": if sc.must_refuse {1} else {0},
                "fmtfail": FORMAT_FAIL.with(|f| f.borrow_mut().take()).unwrap_or_default(),
                "par": if sc.steps.iter().any(|o| matches!(o, Op::Par{..})) {1} else {0},
                "kind": kinds, "comp": comp, "back": if n > 1 {1} else {0},
                "punch_unsupported": if sc.punch_unsupported {1} else {0}}));
        }
        {
            let mut w = world.borrow_mut();
            for (i, f) in files.into_iter().enumerate() {
                w.add_file(f, i > 0 || sc.top_ro);
            }
            w.fault.punch_unsupported = sc.punch_unsupported;
            w.obs = Some(Box::new(TraceObs { sink: sink.clone() }));
        }
        let top_ro = sc.top_ro;
        let mut r = Runner {
            sc,
            world,
            sink,
            geom,
            dev: None,
            next_call: 1,
            next_wid: 10,
            outcome: Vec::new(),
            schedules: Vec::new(),
            prep_fault_done: false,
            probe_mismatch: false,
            stuck: false,
            panicked: false,
            dev_ro: top_ro,
            max_conc: 0,
            allocs: Rc::new(RefCell::new(Vec::new())),
        };
        let p = r.sc.params.clone();
        let bsb = r.sc.bsb;
        // a failing open is data (OpenRes event), not a harness failure
        if let Err(e) = r.open(&p, bsb, top_ro) {
            r.outcome.push(e);
        }
        Ok(r)
    }

    fn ev(&self, v: Value) {
        self.sink.borrow_mut().push(v);
    }

    /// open the chain (top first) with the given parameters
    pub fn open(&mut self, p: &Params, bsb: u32, ro: bool) -> Result<(), String> {
        let nfiles = self.world.borrow().files.len();
        let mut devs: Vec<Qcow2Dev<SimFile>> = Vec::new();
        self.ev(json!({"e":"Open","bsb":bsb,"ro": if ro {1} else {0},
            "l2": p.l2.map(|x| json!([x.0, x.1])).unwrap_or(json!([0, 0])), "rb": p.rb.map(|x| json!([x.0, x.1])).unwrap_or(json!([0, 0]))}));
        for i in 0..nfiles {
            let mut params = mk_params(bsb, p, ro || i > 0);
            if i > 0 {
                params.mark_backing_dev(Some(true));
            }
            let io = SimFile::new(&self.world, i);
            let path = PathBuf::from(format!("layer{i}"));
            let world = self.world.clone();
            let res = block_on(&world, 0, async move {
                qcow2_rs::utils::qcow2_alloc_dev(&path, io, &params).await
            });
            match res {
                Ok(Ok((d, _back))) => devs.push(d),
                Ok(Err(e)) => {
                    self.ev(json!({"e":"OpenRes","res":"err","layer":i,"msg":format!("{e:?}")}));
                    return Err(format!("open failed: {e:?}"));
                }
                Err(p) => {
                    self.ev(json!({"e":"OpenRes","res":"panic","layer":i,"msg":p.clone()}));
                    self.panicked = true;
                    return Err(format!("open panicked: {p}"));
                }
            }
        }
        // link chain bottom-up
        let mut cur: Option<Qcow2Dev<SimFile>> = None;
        while let Some(mut d) = devs.pop() {
            if let Some(b) = cur.take() {
                d.set_backing_dev(Box::new(b));
            }
            cur = Some(d);
        }
        let dev = cur.unwrap();
        let world = self.world.clone();
        let mut prep_faulted = false;
        if let (Some(k), false) = (self.sc.prep_fault, self.prep_fault_done) {
            self.prep_fault_done = true;
            let ord = {
                let mut w = self.world.borrow_mut();
                let ord = w.reqs.len() + k;
                w.fault.by_ordinal.insert(ord, FaultMode::Err);
                ord
            };
            self.ev(json!({"e":"FaultPlan","ord":ord}));
            prep_faulted = true;
        }
        let mut res = block_on(&world, 0, async { dev.qcow2_prep_io().await });
        if prep_faulted {
            self.world.borrow_mut().fault.by_ordinal.clear();
            self.ev(json!({"e":"FaultsOff"}));
            if let Ok(Err(e)) = &res {
                // the device has to stay usable: the same call again
                self.ev(json!({"e":"Note","msg":format!("prep_io failed ({e:?}), repeated")}));
                res = block_on(&world, 0, async { dev.qcow2_prep_io().await });
            }
        }
        match res {
            Ok(Ok(())) => {}
            Ok(Err(e)) => {
                self.ev(json!({"e":"OpenRes","res":"err","layer":0,"msg":format!("{e:?}")}));
                return Err(format!("prep failed: {e:?}"));
            }
            Err(p) => {
                self.ev(json!({"e":"OpenRes","res":"panic","layer":0,"msg":p.clone()}));
                self.panicked = true;
                return Err(format!("prep panicked: {p}"));
            }
        }
        self.ev(json!({"e":"OpenRes","res":"ok","layer":0,"msg":""}));
        if let Some(pt) = &self.sc.rc_pattern {
            dev.verif_set_free_cluster_offset(pt.hint << self.geom.cb);
        }
        if let Some(h) = self.sc.alloc_hint {
            if !ro {
                dev.verif_set_free_cluster_offset(h << self.geom.cb);
            }
        }
        self.dev = Some(dev);
        self.dev_ro = ro;
        Ok(())
    }

    /// classify (off,len) for the Validate decision table, with 128-bit
    /// arithmetic
    fn classes(&self, off: u64, len: u64) -> Value {
        let bs = self.geom.bs() as u128;
        let vs = self.geom.vsize as u128;
        let (o, l) = (off as u128, len as u128);
        let end = o + l;
        json!({
            "oa": if o % bs == 0 {1} else {0},
            "la": if l % bs == 0 {1} else {0},
            "lz": if l == 0 {1} else {0},
            "pos": if o < vs {"lt"} else if o == vs {"eq"} else {"gt"},
            "end": if end > u64::MAX as u128 {"ovf"} else if end <= vs {"le"} else {"gt"},
            // clamped count in blocks for reads crossing the end
            "clamp": if o < vs { small_blk(((vs - o) / bs * bs) as u64, self.geom.bsb) } else {0},
            "ro": if self.dev_ro {1} else {0},
        })
    }

    /// whole clusters inside [o, o+l) clipped to the virtual size, in blocks
    fn discard_inner(&self, o: u64, l: u64) -> (u64, u64) {
        let bsb = self.geom.bsb;
        let vs = self.geom.vsize as u128;
        let cs = self.geom.cs() as u128;
        let end = ((o as u128) + (l as u128)).min(vs);
        let start = ((o as u128) + cs - 1) / cs * cs;
        let stop = end / cs * cs;
        if l == 0 || (o as u128) >= end || start >= stop {
            (0, 0)
        } else {
            ((start >> bsb) as u64, ((stop - start) >> bsb) as u64)
        }
    }

    fn call_json(&mut self, op: &Op) -> (Value, u32) {
        let id = self.next_call;
        self.next_call += 1;
        let bsb = self.geom.bsb;
        let mut wid = 0;
        let v = match op {
            Op::Write { gb, n } => {
                wid = self.next_wid;
                self.next_wid += 1;
                json!({"e":"Call","id":id,"t":id,"op":"write","gb":gb,"n":n,"wid":wid,
                       "cls": self.classes(gb << bsb, n << bsb)})
            }
            Op::Read { gb, n } => json!({"e":"Call","id":id,"t":id,"op":"read","gb":gb,"n":n,"wid":0,
                       "cls": self.classes(gb << bsb, n << bsb)}),
            Op::Discard { gb, n } => {
                wid = self.next_wid;
                self.next_wid += 1;
                let (dgb, dn) = self.discard_inner(gb << bsb, n << bsb);
                json!({"e":"Call","id":id,"t":id,"op":"discard","gb":dgb,"n":dn,"wid":wid,
                       "cls": self.classes(gb << bsb, n << bsb)})
            }
            Op::WriteRaw { off, len } => {
                wid = self.next_wid;
                self.next_wid += 1;
                let (o, l) = (off.parse::<u64>().unwrap(), len.parse::<u64>().unwrap());
                json!({"e":"Call","id":id,"t":id,"op":"write","gb":small_blk(o, bsb),"n":small_blk(l, bsb),"wid":wid,
                       "cls": self.classes(o, l), "raw":[off, len]})
            }
            Op::ReadRaw { off, len } => {
                let (o, l) = (off.parse::<u64>().unwrap(), len.parse::<u64>().unwrap());
                json!({"e":"Call","id":id,"t":id,"op":"read","gb":small_blk(o, bsb),"n":small_blk(l, bsb),"wid":0,
                       "cls": self.classes(o, l), "raw":[off, len]})
            }
            Op::DiscardRaw { off, len } => {
                wid = self.next_wid;
                self.next_wid += 1;
                let (o, l) = (off.parse::<u64>().unwrap(), len.parse::<u64>().unwrap());
                let (dgb, dn) = self.discard_inner(o, l);
                json!({"e":"Call","id":id,"t":id,"op":"discard","gb":dgb,"n":dn,"wid":wid,"inner":1,
                       "cls": self.classes(o, l), "raw":[off, len]})
            }
            Op::Alloc { n } => json!({"e":"Call","id":id,"t":id,"op":"alloc","gb":0,"n":n,"wid":0,"cls":self.classes(0,0)}),
            Op::FreeAlloc { idx } => {
                let a = self.allocs.borrow();
                let (c, n) = if a.is_empty() { (0, 0) } else { let x = a[idx % a.len()]; ((x.0 >> self.geom.cb) as usize, x.1) };
                json!({"e":"Call","id":id,"t":id,"op":"free","gb":c,"n":n,"wid":0,"cls":self.classes(0,0)})
            }
            Op::Flush => json!({"e":"Call","id":id,"t":id,"op":"flush","gb":0,"n":0,"wid":0,"cls":self.classes(0,0)}),
            Op::Fsync => json!({"e":"Call","id":id,"t":id,"op":"fsync","gb":0,"n":0,"wid":0,"cls":self.classes(0,0)}),
            Op::Shrink => json!({"e":"Call","id":id,"t":id,"op":"shrink","gb":0,"n":0,"wid":0,"cls":self.classes(0,0)}),
            Op::Check => json!({"e":"Call","id":id,"t":id,"op":"check","gb":0,"n":0,"wid":0,"cls":self.classes(0,0)}),
            _ => unreachable!(),
        };
        (v, wid)
    }

    /// run a group of calls concurrently (a single call is a group of one)
    pub fn run_group(&mut self, ops: &[Op], policy: Policy) {
        let dev = match self.dev.take() {
            Some(d) => d,
            None => return,
        };
        let geom = self.geom;
        let bs = geom.bs();
        let sink = self.sink.clone();
        let mut metas = Vec::new();
        for op in ops {
            let (cj, wid) = self.call_json(op);
            metas.push((op.clone(), cj, wid));
        }
        {
            let devr = &dev;
            let mut ex = Exec::new(self.world.clone(), policy);
            for (op, cj, wid) in metas.into_iter() {
                let id = cj["id"].as_u64().unwrap() as usize;
                let sink2 = sink.clone();
                let allocs2 = self.allocs.clone();
                let mk = Box::new(move || {
                    sink2.borrow_mut().push(cj);
                    let sink3 = sink2.clone();
                    let fut: TaskFut<'_> = Box::pin(async move {
                        let ret = |res: &str, n: i64, toks: Vec<i64>, msg: String| {
                            sink3.borrow_mut().push(json!({"e":"Ret","id":id,"res":res,"n":n,"toks":toks,"msg":msg}));
                        };
                        match op {
                            Op::Write { gb, n } => {
                                let len = (n as usize) * bs;
                                let r = if len == 0 {
                                    devr.write_at(&[], gb << geom.bsb).await
                                } else {
                                    let mut buf = Qcow2IoBuf::<u8>::new(len);
                                    for i in 0..n as usize {
                                        stamp_block(&mut buf[i * bs..(i + 1) * bs], token(wid, (gb as u32) + i as u32));
                                    }
                                    devr.write_at(&buf, gb << geom.bsb).await
                                };
                                match r {
                                    Ok(()) => ret("ok", n as i64, vec![], String::new()),
                                    Err(e) => ret("err", 0, vec![], format!("{e:?}")),
                                }
                            }
                            Op::WriteRaw { off, len } => {
                                let (o, l) = (off.parse::<u64>().unwrap(), len.parse::<u64>().unwrap());
                                let l = l as usize;
                                let r = if l == 0 {
                                    devr.write_at(&[], o).await
                                } else {
                                    let mut buf = Qcow2IoBuf::<u8>::new(l);
                                    let gb0 = (o >> geom.bsb) as u32;
                                    for (i, ch) in buf.chunks_mut(bs).enumerate() {
                                        if ch.len() == bs {
                                            stamp_block(ch, token(wid, gb0.wrapping_add(i as u32)));
                                        } else {
                                            ch.fill(0x5a);
                                        }
                                    }
                                    devr.write_at(&buf, o).await
                                };
                                match r {
                                    Ok(()) => ret("ok", (l / bs) as i64, vec![], String::new()),
                                    Err(e) => ret("err", 0, vec![], format!("{e:?}")),
                                }
                            }
                            Op::Read { gb, n } => {
                                let len = (n as usize) * bs;
                                if len == 0 {
                                    let mut e: [u8; 0] = [];
                                    match devr.read_at(&mut e, gb << geom.bsb).await {
                                        Ok(k) => ret("ok", (k / bs) as i64, vec![], String::new()),
                                        Err(e) => ret("err", 0, vec![], format!("{e:?}")),
                                    }
                                } else {
                                    let mut buf = Qcow2IoBuf::<u8>::new(len);
                                    buf.fill(POISON);
                                    match devr.read_at(&mut buf, gb << geom.bsb).await {
                                        Ok(k) => {
                                            let toks: Vec<i64> = buf[..k.min(len) / bs * bs].chunks(bs).map(tok_i).collect();
                                            ret("ok", (k / bs) as i64, toks, if k % bs != 0 { format!("bytes={k}") } else { String::new() })
                                        }
                                        Err(e) => ret("err", 0, vec![], format!("{e:?}")),
                                    }
                                }
                            }
                            Op::ReadRaw { off, len } => {
                                let (o, l) = (off.parse::<u64>().unwrap(), len.parse::<u64>().unwrap());
                                let l = l as usize;
                                if l == 0 {
                                    let mut e: [u8; 0] = [];
                                    match devr.read_at(&mut e, o).await {
                                        Ok(k) => ret("ok", (k / bs) as i64, vec![], String::new()),
                                        Err(e) => ret("err", 0, vec![], format!("{e:?}")),
                                    }
                                } else {
                                    let mut buf = Qcow2IoBuf::<u8>::new(l);
                                    buf.fill(POISON);
                                    match devr.read_at(&mut buf, o).await {
                                        Ok(k) => {
                                            let toks: Vec<i64> = if o % bs as u64 == 0 {
                                                buf[..k.min(l) / bs * bs].chunks(bs).map(tok_i).collect()
                                            } else {
                                                vec![]
                                            };
                                            ret("ok", (k / bs) as i64, toks, if k % bs != 0 { format!("bytes={k}") } else { String::new() })
                                        }
                                        Err(e) => ret("err", 0, vec![], format!("{e:?}")),
                                    }
                                }
                            }
                            Op::Discard { gb, n } => match devr.discard(gb << geom.bsb, n << geom.bsb).await {
                                Ok(()) => ret("ok", n as i64, vec![], String::new()),
                                Err(e) => ret("err", 0, vec![], format!("{e:?}")),
                            },
                            Op::DiscardRaw { off, len } => {
                                let (o, l) = (off.parse::<u64>().unwrap(), len.parse::<u64>().unwrap());
                                match devr.discard(o, l).await {
                                    Ok(()) => ret("ok", 0, vec![], String::new()),
                                    Err(e) => ret("err", 0, vec![], format!("{e:?}")),
                                }
                            }
                            Op::Flush => match devr.flush_meta().await {
                                Ok(()) => ret("ok", 0, vec![], String::new()),
                                Err(e) => ret("err", 0, vec![], format!("{e:?}")),
                            },
                            Op::Fsync => match devr.fsync_range(0, geom.vsize as usize).await {
                                Ok(()) => ret("ok", 0, vec![], String::new()),
                                Err(e) => ret("err", 0, vec![], format!("{e:?}")),
                            },
                            Op::Shrink => match devr.shrink_caches().await {
                                Ok(()) => ret("ok", 0, vec![], String::new()),
                                Err(e) => ret("err", 0, vec![], format!("{e:?}")),
                            },
                            Op::Alloc { n } => match devr.verif_allocate_clusters(n).await {
                                Ok(Some((off, cnt))) => {
                                    allocs2.borrow_mut().push((off, cnt));
                                    sink3.borrow_mut().push(json!({"e":"Ret","id":id,"res":"ok","n":cnt,"toks":[],"msg":"","c": off >> geom.cb, "ua": off & ((1u64 << geom.cb) - 1)}));
                                }
                                Ok(None) => ret("err", 0, vec![], "nothing allocated".into()),
                                Err(e) => ret("err", 0, vec![], format!("{e:?}")),
                            },
                            Op::FreeAlloc { idx } => {
                                let pick = {
                                    let mut a = allocs2.borrow_mut();
                                    if a.is_empty() { None } else { let k = idx % a.len(); Some(a.remove(k)) }
                                };
                                match pick {
                                    None => {
                                        sink3.borrow_mut().push(json!({"e":"Ret","id":id,"res":"ok","n":0,"toks":[],"msg":"nothing to free","c":0,"ua":0}));
                                    }
                                    Some((off, cnt)) => match devr.verif_free_clusters(off, cnt).await {
                                        Ok(()) => {
                                            sink3.borrow_mut().push(json!({"e":"Ret","id":id,"res":"ok","n":cnt,"toks":[],"msg":"","c": off >> geom.cb, "ua": 0}));
                                        }
                                        Err(e) => ret("err", 0, vec![], format!("{e:?}")),
                                    },
                                }
                            }
                            Op::Check => match devr.check().await {
                                Ok(()) => ret("ok", 0, vec![], String::new()),
                                Err(e) => ret("err", 0, vec![], format!("{e:?}")),
                            },
                            _ => {}
                        }
                    });
                    fut
                });
                ex.enqueue(id, mk);
            }
            if self.sc.sample_ram {
                let sink4 = sink.clone();
                let w4 = self.world.clone();
                ex.on_step = Some(Box::new(move |_e| {
                    let snap = devr.verif_snapshot();
                    let ev = ram_event(&snap, &w4, &sink4);
                    let mut s = sink4.borrow_mut();
                    let same = s.ev.iter().rev().find(|v| v["e"] == "Ram").map(|v| *v == ev).unwrap_or(false);
                    if !same {
                        s.push(ev);
                    }
                }));
            } else if self.sc.sample_flag {
                let sink4 = sink.clone();
                ex.on_step = Some(Box::new(move |_e| {
                    let nf = devr.need_flush_meta();
                    let mut s = sink4.borrow_mut();
                    // only record changes
                    let last = s.ev.iter().rev().find(|v| v["e"] == "Flag").map(|v| v["nf"].as_i64().unwrap());
                    let cur = if nf { 1 } else { 0 };
                    if last != Some(cur) {
                        s.push(json!({"e":"Flag","nf":cur}));
                    }
                }));
            }
            let oc = ex.run();
            for (t, msg) in ex.panics.iter() {
                sink.borrow_mut().push(json!({"e":"Panic","t":t,"msg":msg}));
                self.panicked = true;
            }
            match oc {
                Outcome::AllDone => {}
                Outcome::Stuck(t) => {
                    sink.borrow_mut().push(json!({"e":"Stuck","tasks":t,"why":"deadlock","msg":"deadlock"}));
                    self.stuck = true;
                }
                Outcome::Budget(t) => {
                    sink.borrow_mut().push(json!({"e":"Stuck","tasks":t,"why":"budget","msg":"budget"}));
                    self.stuck = true;
                }
            }
            if ex.max_concurrency_seen > self.max_conc {
                self.max_conc = ex.max_concurrency_seen;
            }
            self.schedules.push(ex.chosen.clone());
            if self.stuck || self.panicked {
                // the device may hold locks / half-updated state: leak it
                std::mem::forget(ex);
                std::mem::forget(dev);
                return;
            }
        }
        self.dev = Some(dev);
    }

    fn policy(&self, ntasks: usize, salt: u64) -> Policy {
        let s = &self.sc.sched;
        match s.policy.as_str() {
            "random" => Policy::random(s.seed.wrapping_mul(1000003).wrapping_add(salt)),
            "pct" => Policy::pct(s.seed.wrapping_mul(1000003).wrapping_add(salt), ntasks, 3, 60),
            "script" => Policy::Script(s.script.clone(), 0),
            "rel" => Policy::Rel(s.rel.clone(), 0),
            // seed = number of requests of the group's first call that complete before it is parked
            "park" => Policy::Park(s.seed as usize, 0, 0, Vec::new()),
            _ => Policy::Fifo,
        }
    }

    /// the Reset event carries the largest block number the run touched
    pub fn patch_maxb(&mut self) {
        let mut s = self.sink.borrow_mut();
        let m = s.maxb.first().copied().unwrap_or(0);
        if let Some(r) = s.ev.iter_mut().find(|v| v["e"] == "Reset") {
            r["maxb"] = json!(m);
        }
    }

    pub fn run(&mut self) {
        let steps = self.sc.steps.clone();
        let mut salt = 0u64;
        for st in steps.iter() {
            if self.stuck || self.panicked || self.dev.is_none() {
                break;
            }
            salt += 1;
            self.step(st, salt);
        }
        let maxb = self.sink.borrow().maxb.clone();
        let flens: Vec<usize> = self
            .world
            .borrow()
            .files
            .iter()
            .map(|f| f.data.len().div_ceil(self.geom.bs()))
            .collect();
        self.ev(json!({"e":"End","maxb":maxb,"flen":flens}));
        self.patch_maxb();
    }

    /// tokens of every guest block as the device reads them now
    fn sweep_tokens(&mut self) -> Vec<i64> {
        let i0 = self.sink.borrow().ev.len();
        self.step(&Op::Sweep, 0);
        let s = self.sink.borrow();
        s.ev[i0..]
            .iter()
            .filter(|v| v["e"] == "Ret")
            .flat_map(|v| v["toks"].as_array().cloned().unwrap_or_default())
            .map(|t| t.as_i64().unwrap_or(-7))
            .collect()
    }

    fn step(&mut self, st: &Op, salt: u64) {
        {
            match st {
                Op::Probe => {
                    // need_flush_meta() == false promises that the file alone gives the same
                    // guest content: compare the live device with a reopened one (cheap in-harness
                    // oracle, used to pick a schedule out of a sweep; the kept run is judged by TLC)
                    let clear = self.dev.as_ref().map(|d| !d.need_flush_meta()).unwrap_or(false);
                    if clear {
                        let before = self.sweep_tokens();
                        if !(self.stuck || self.panicked) {
                            self.step(&Op::Reopen { params: None, bsb: None, ro: false }, salt);
                            if self.dev.is_some() {
                                let after = self.sweep_tokens();
                                if before != after {
                                    self.probe_mismatch = true;
                                }
                            } else {
                                self.probe_mismatch = true;
                            }
                        }
                    }
                }
                Op::Par { ops } => {
                    let p = self.policy(ops.len(), salt);
                    self.run_group(ops, p);
                }
                Op::Sweep => {
                    // whole-device read in chunks of at most 64 blocks
                    let vb = self.geom.vblocks() as u64;
                    let mut gb = 0;
                    while gb < vb {
                        let n = (vb - gb).min(64);
                        self.run_group(&[Op::Read { gb, n }], Policy::Fifo);
                        gb += n;
                        if self.stuck || self.panicked {
                            break;
                        }
                    }
                }
                Op::Reopen { params, bsb, ro } => {
                    // drop the device (dirty caches are lost, as documented)
                    self.dev = None;
                    // modifying calls not followed by a successful flush_meta: an unclean drop
                    let unflushed = {
                        let s = self.sink.borrow();
                        let mut ops: std::collections::HashMap<u64, (String, usize)> = Default::default();
                        let mut last_flush = 0usize;
                        let mut mods: Vec<(usize, usize)> = Vec::new(); // (call index, ret index)
                        for (i, e) in s.ev.iter().enumerate() {
                            match e["e"].as_str() {
                                Some("Reset") => {
                                    ops.clear();
                                    mods.clear();
                                    last_flush = i;
                                }
                                Some("Call") => {
                                    ops.insert(e["id"].as_u64().unwrap_or(0), (e["op"].as_str().unwrap_or("").to_string(), i));
                                }
                                Some("Ret") => {
                                    if let Some((op, ci)) = ops.get(&e["id"].as_u64().unwrap_or(0)) {
                                        if op == "flush" && e["res"] == "ok" {
                                            last_flush = i;
                                        } else if matches!(op.as_str(), "write" | "discard" | "alloc" | "free") {
                                            mods.push((*ci, i));
                                        }
                                    }
                                }
                                _ => {}
                            }
                        }
                        mods.iter().filter(|(_, ri)| *ri > last_flush).count()
                    };
                    self.ev(json!({"e":"Drop","unflushed":unflushed}));
                    let p = params.clone().unwrap_or(self.sc.params.clone());
                    let b = bsb.unwrap_or(self.sc.bsb);
                    if b != self.geom.bsb {
                        // block size changes are handled by separate runs
                        self.ev(json!({"e":"Note","msg":"bsb change ignored"}));
                    }
                    if let Err(e) = self.open(&p, self.geom.bsb, *ro) {
                        self.outcome.push(e);
                    }
                }
                Op::RcDump { n } => {
                    if let Some(dev) = &self.dev {
                        let snap = dev.verif_snapshot();
                        let ev = ram_event(&snap, &self.world, &self.sink);
                        // refcounts of the in-ram view, decoded independently
                        let g = self.geom;
                        let w = self.world.borrow();
                        let mut img = w.files[0].data.clone();
                        let put = |img: &mut Vec<u8>, off: u64, d: &[u8]| {
                            let off = off as usize;
                            if img.len() < off + d.len() {
                                img.resize(off + d.len(), 0);
                            }
                            img[off..off + d.len()].copy_from_slice(d);
                        };
                        if let Some(nc) = &snap.new_clusters {
                            for c in nc {
                                put(&mut img, c << g.cb, &vec![0u8; g.cs()]);
                            }
                        }
                        if let (Some(o), Some(d)) = (snap.reftable_offset, &snap.reftable) {
                            put(&mut img, o, d);
                        }
                        for sl in snap.rb_slices.iter() {
                            if let Some(o) = sl.offset {
                                put(&mut img, o, &sl.data);
                            }
                        }
                        let rt = snap.reftable_offset.unwrap_or(0) as usize;
                        let mut used = Vec::new();
                        let mut multi = Vec::new();
                        for c in 0..*n {
                            let e = rt + (c / g.rbn()) * 8;
                            let rb = if img.len() >= e + 8 { (u64::from_be_bytes(img[e..e + 8].try_into().unwrap()) & !0x1ff) as usize } else { 0 };
                            if rb != 0 && img.len() >= rb + g.cs() {
                                let v = refcount_at(&img[rb..rb + g.cs()], c % g.rbn(), g.ro);
                                if v != 0 {
                                    used.push(c);
                                }
                                if v > 1 {
                                    multi.push(c);
                                }
                            }
                        }
                        drop(w);
                        self.ev(json!({"e":"Note","msg":"rcdump","used": used, "multi": multi, "hint": ev["hint"]}));
                    }
                }
                Op::MapAll => {
                    if let Some(dev) = self.dev.take() {
                        let w = self.world.clone();
                        let g = self.geom;
                        let n = g.vclusters();
                        let res = block_on(&w, 0, async {
                            let mut v = Vec::new();
                            for gc in 0..n {
                                match dev.get_mapping((gc as u64) << g.cb).await {
                                    Ok(m) => {
                                        use qcow2_rs::meta::MappingSource as M;
                                        let k = match m.source {
                                            M::DataFile => "d",
                                            M::Backing => "b",
                                            M::Zero => "z",
                                            M::Compressed => "c",
                                            M::Unallocated => "u",
                                        };
                                        let off = m.cluster_offset.unwrap_or(0);
                                        v.push(json!({"k": k, "c": small_blk(off, g.cb), "s": off & ((1u64 << g.cb) - 1),
                                                      "len": m.compressed_length.unwrap_or(0), "cp": if m.copied {1} else {0}}));
                                    }
                                    Err(e) => v.push(json!({"k": "err", "c": 0, "s": 0, "len": 0, "cp": 0, "msg": format!("{e:?}")})),
                                }
                            }
                            v
                        });
                        match res {
                            Ok(v) => self.ev(json!({"e":"MapAll","m":v})),
                            Err(p) => {
                                self.ev(json!({"e":"Panic","t":0,"msg":p}));
                                self.panicked = true;
                            }
                        }
                        if self.panicked {
                            std::mem::forget(dev);
                        } else {
                            self.dev = Some(dev);
                        }
                    }
                }
                Op::Info => {
                    if let Some(dev) = &self.dev {
                        // Qcow2Info's fields are crate-private: read them from its Debug output
                        let d = format!("{:?}", dev.info);
                        let mut m = serde_json::Map::new();
                        for part in d.trim_start_matches("Qcow2Info {").trim_end_matches('}').split(',') {
                            let mut kv = part.split(':');
                            if let (Some(k), Some(v)) = (kv.next(), kv.next()) {
                                if let Ok(n) = v.trim().parse::<u64>() {
                                    m.insert(k.trim().to_string(), json!(if n >= HUGE as u64 { HUGE } else { n as i64 }));
                                }
                            }
                        }
                        let p = self.sc.params.clone();
                        self.ev(json!({"e":"Info","i":m,"l2sb": p.l2.map(|x| x.0 as i64).unwrap_or(-1), "rbsb": p.rb.map(|x| x.0 as i64).unwrap_or(-1),
                                       "l2cnt": p.l2.map(|x| (x.1 >> x.0) as i64).unwrap_or(-1), "rbcnt": p.rb.map(|x| (x.1 >> x.0) as i64).unwrap_or(-1)}));
                    }
                }
                Op::Map { gb } => {
                    if let Some(dev) = self.dev.take() {
                        let w = self.world.clone();
                        let off = gb << self.geom.bsb;
                        let m = block_on(&w, 0, async { dev.get_mapping(off).await });
                        self.ev(json!({"e":"Note","msg":format!("map gb={gb}: {m:?}")}));
                        self.dev = Some(dev);
                    }
                }
                Op::FailNext { nth, partial } => {
                    let mut w = self.world.borrow_mut();
                    let ord = w.reqs.len() + nth;
                    w.fault.by_ordinal.insert(
                        ord,
                        if *partial { FaultMode::Partial } else { FaultMode::Err },
                    );
                    drop(w);
                    self.ev(json!({"e":"FaultPlan","ord":ord}));
                }
                Op::FailFrom { nth } => {
                    let mut w = self.world.borrow_mut();
                    let ord = w.reqs.len() + nth;
                    w.fault.fail_from = Some(ord);
                    drop(w);
                    self.ev(json!({"e":"FaultPlan","ord":ord}));
                }
                Op::FailAll { on } => {
                    self.world.borrow_mut().fault.fail_all = *on;
                    self.ev(json!({"e":"FaultAll","on": if *on {1} else {0}}));
                }
                Op::Recover { retries } => {
                    {
                        let mut w = self.world.borrow_mut();
                        w.fault.fail_all = false;
                        w.fault.fail_from = None;
                        w.fault.by_ordinal.clear();
                    }
                    self.ev(json!({"e":"FaultsOff"}));
                    for _ in 0..*retries {
                        self.run_group(&[Op::Flush], Policy::Fifo);
                        let ok = {
                            let s = self.sink.borrow();
                            s.ev.iter().rev().find(|v| v["e"] == "Ret").map(|v| v["res"] == "ok").unwrap_or(false)
                        };
                        if ok || self.stuck || self.panicked {
                            break;
                        }
                    }
                    self.ev(json!({"e":"Recovered"}));
                }
                op => {
                    self.run_group(std::slice::from_ref(op), Policy::Fifo);
                }
            }
        }
    }
}
