//! Deterministic single-threaded executor.
//!
//! Tasks are top-level API calls.  Every suspension point of the library is
//! either a backend request (owned by `World`) or a contended futures_locks
//! lock (which wakes through our waker), so the scheduler owns every choice:
//! at each step it picks one of {runnable tasks} ∪ {in-flight requests} ∪
//! {spawn the next queued call}.
use crate::sim::{ReqId, WorldRef};
use rand::rngs::StdRng;
use rand::{Rng, SeedableRng};
use std::collections::BTreeSet;
use std::future::Future;
use std::panic::{catch_unwind, AssertUnwindSafe};
use std::pin::Pin;
use std::sync::{Arc, Mutex};
use std::task::{Context, Poll, Wake, Waker};

#[derive(Clone, Copy, Debug, PartialEq, Eq, PartialOrd, Ord)]
pub enum Choice {
    Task(usize),
    Req(ReqId),
    Spawn,
}

impl Choice {
    pub fn to_json(&self) -> serde_json::Value {
        match self {
            Choice::Task(t) => serde_json::json!(["t", t]),
            Choice::Req(r) => serde_json::json!(["r", r]),
            Choice::Spawn => serde_json::json!(["s", 0]),
        }
    }
}

pub enum Policy {
    /// run tasks first (lowest id), spawn only when nothing else, complete
    /// oldest request: the sequential baseline
    Fifo,
    /// uniformly random among the enabled choices
    Random(StdRng),
    /// PCT-like: random priorities per task, requests completed lazily,
    /// priority change points
    Pct(StdRng, Vec<u32>, Vec<usize>, usize),
    /// scripted choice indexes (into the sorted enabled list); after the
    /// script is exhausted falls back to Fifo
    Script(Vec<usize>, usize),
    /// park: the first task of the group runs alone until `nth` of its requests
    /// have completed and it waits for the next one(s); those are held back
    /// while all other tasks are started and run as far as they get; then
    /// everything goes on in fifo order.  (nth, phase, completed, held)
    Park(usize, u8, usize, Vec<usize>),
    /// scripted by relative identity: ("t", k-th spawned task) / ("r", n-th
    /// oldest in-flight request) / ("s")
    Rel(Vec<(char, usize)>, usize),
}

impl Policy {
    pub fn random(seed: u64) -> Policy {
        Policy::Random(StdRng::seed_from_u64(seed))
    }
    pub fn pct(seed: u64, ntasks: usize, depth: usize, steps: usize) -> Policy {
        let mut rng = StdRng::seed_from_u64(seed);
        let mut prio: Vec<u32> = (0..ntasks as u32 + 8).map(|i| 1000 + i).collect();
        // shuffle
        for i in (1..prio.len()).rev() {
            let j = rng.gen_range(0..=i);
            prio.swap(i, j);
        }
        let mut cps: Vec<usize> = (0..depth).map(|_| rng.gen_range(0..steps.max(1))).collect();
        cps.sort();
        Policy::Pct(rng, prio, cps, 0)
    }
}

struct TaskWaker {
    id: usize,
    set: Arc<Mutex<BTreeSet<usize>>>,
}

impl Wake for TaskWaker {
    fn wake(self: Arc<Self>) {
        self.set.lock().unwrap().insert(self.id);
    }
    fn wake_by_ref(self: &Arc<Self>) {
        self.set.lock().unwrap().insert(self.id);
    }
}

pub type TaskFut<'a> = Pin<Box<dyn Future<Output = ()> + 'a>>;

#[derive(Debug, Clone, PartialEq)]
pub enum Outcome {
    AllDone,
    /// unfinished tasks, nothing runnable, nothing in flight
    Stuck(Vec<usize>),
    /// step budget exhausted
    Budget(Vec<usize>),
}

pub struct Exec<'a> {
    pub world: WorldRef,
    tasks: Vec<Option<TaskFut<'a>>>,
    /// global task ids (for the trace) of the local slots
    pub gids: Vec<usize>,
    runnable: Arc<Mutex<BTreeSet<usize>>>,
    /// calls waiting to be spawned (in order); the closure creates the future
    queue: std::collections::VecDeque<(usize, Box<dyn FnOnce() -> TaskFut<'a> + 'a>)>,
    pub policy: Policy,
    pub choices: Vec<(usize, usize)>, // (index chosen, number enabled)
    pub chosen: Vec<Choice>,
    pub panics: Vec<(usize, String)>,
    pub steps: usize,
    pub max_steps: usize,
    /// callback invoked after every step (quiescent-point sampling)
    pub on_step: Option<Box<dyn FnMut(&Exec<'a>) + 'a>>,
    pub max_concurrency_seen: usize,
}

impl<'a> Exec<'a> {
    pub fn new(world: WorldRef, policy: Policy) -> Self {
        Exec {
            world,
            tasks: Vec::new(),
            gids: Vec::new(),
            runnable: Arc::new(Mutex::new(BTreeSet::new())),
            queue: Default::default(),
            policy,
            choices: Vec::new(),
            chosen: Vec::new(),
            panics: Vec::new(),
            steps: 0,
            max_steps: 200_000,
            on_step: None,
            max_concurrency_seen: 0,
        }
    }

    /// queue a call; it is started when the scheduler picks `Spawn`
    pub fn enqueue(&mut self, gid: usize, mk: Box<dyn FnOnce() -> TaskFut<'a> + 'a>) {
        self.queue.push_back((gid, mk));
    }

    pub fn live_tasks(&self) -> Vec<usize> {
        self.tasks
            .iter()
            .enumerate()
            .filter(|(_, t)| t.is_some())
            .map(|(i, _)| self.gids[i])
            .collect()
    }

    fn enabled(&self) -> Vec<Choice> {
        let mut v = Vec::new();
        for t in self.runnable.lock().unwrap().iter() {
            if self.tasks[*t].is_some() {
                v.push(Choice::Task(*t));
            }
        }
        for r in self.world.borrow().inflight.iter() {
            v.push(Choice::Req(*r));
        }
        if !self.queue.is_empty() {
            v.push(Choice::Spawn);
        }
        v
    }

    fn pick(&mut self, en: &[Choice]) -> usize {
        let fifo = |en: &[Choice]| -> usize {
            // tasks first, then spawn, then oldest request
            if let Some(i) = en.iter().position(|c| matches!(c, Choice::Task(_))) {
                return i;
            }
            if let Some(i) = en.iter().position(|c| matches!(c, Choice::Req(_))) {
                return i;
            }
            0
        };
        match &mut self.policy {
            Policy::Fifo => fifo(en),
            Policy::Random(rng) => rng.gen_range(0..en.len()),
            Policy::Pct(rng, prio, cps, step) => {
                *step += 1;
                // at a change point demote the currently best task
                let best_task = en
                    .iter()
                    .filter_map(|c| if let Choice::Task(t) = c { Some(*t) } else { None })
                    .max_by_key(|t| prio[*t % prio.len()]);
                if cps.first().map(|c| *c <= *step).unwrap_or(false) {
                    cps.remove(0);
                    if let Some(t) = best_task {
                        let l = prio.len();
                        prio[t % l] = rng.gen_range(0..100);
                    }
                }
                // spawn early with prob, else best task, else random request
                if let Some(i) = en.iter().position(|c| *c == Choice::Spawn) {
                    if rng.gen_bool(0.5) {
                        return i;
                    }
                }
                let best_task = en
                    .iter()
                    .filter_map(|c| if let Choice::Task(t) = c { Some(*t) } else { None })
                    .max_by_key(|t| prio[*t % prio.len()]);
                let reqs: Vec<usize> = en
                    .iter()
                    .enumerate()
                    .filter(|(_, c)| matches!(c, Choice::Req(_)))
                    .map(|(i, _)| i)
                    .collect();
                match best_task {
                    Some(t) if reqs.is_empty() || rng.gen_bool(0.7) => {
                        en.iter().position(|c| *c == Choice::Task(t)).unwrap()
                    }
                    _ => {
                        if reqs.is_empty() {
                            rng.gen_range(0..en.len())
                        } else {
                            reqs[rng.gen_range(0..reqs.len())]
                        }
                    }
                }
            }
            Policy::Park(nth, phase, done, held) => {
                let task0 = en.iter().position(|c| matches!(c, Choice::Task(_)));
                let spawn = en.iter().position(|c| *c == Choice::Spawn);
                if *phase == 0 {
                    // nothing started yet: start the first task
                    if *done == 0 && held.is_empty() && task0.is_none() && en.iter().all(|c| !matches!(c, Choice::Req(_))) {
                        if let Some(i) = spawn {
                            held.push(usize::MAX); // marker: first task started
                            return i;
                        }
                    }
                    if let Some(i) = task0 {
                        return i;
                    }
                    let reqs: Vec<usize> = en.iter().enumerate().filter(|(_, c)| matches!(c, Choice::Req(_))).map(|(i, _)| i).collect();
                    if reqs.is_empty() {
                        // the first task has finished (or waits for nothing we hold)
                        *phase = 2;
                        return fifo(en);
                    }
                    if *done < *nth {
                        *done += 1;
                        return reqs[0];
                    }
                    // parked: hold what is in flight now
                    held.clear();
                    for c in en.iter() {
                        if let Choice::Req(r) = c {
                            held.push(*r);
                        }
                    }
                    *phase = 1;
                }
                if *phase == 1 {
                    // the other calls one after the other: each runs as far as it gets before the next starts
                    if let Some(i) = task0 {
                        return i;
                    }
                    if let Some(i) = en.iter().position(|c| matches!(c, Choice::Req(r) if !held.contains(r))) {
                        return i;
                    }
                    if let Some(i) = spawn {
                        return i;
                    }
                    *phase = 2;
                }
                fifo(en)
            }
            Policy::Script(s, pos) => {
                if *pos < s.len() {
                    let c = s[*pos] % en.len();
                    *pos += 1;
                    c
                } else {
                    fifo(en)
                }
            }
            Policy::Rel(s, pos) => {
                // skip script entries that are not enabled
                while *pos < s.len() {
                    let (k, n) = s[*pos];
                    *pos += 1;
                    let idx = match k {
                        't' => en.iter().position(|c| *c == Choice::Task(n)),
                        'r' => {
                            let reqs: Vec<usize> = en
                                .iter()
                                .enumerate()
                                .filter(|(_, c)| matches!(c, Choice::Req(_)))
                                .map(|(i, _)| i)
                                .collect();
                            reqs.get(n).copied()
                        }
                        _ => en.iter().position(|c| *c == Choice::Spawn),
                    };
                    if let Some(i) = idx {
                        return i;
                    }
                }
                fifo(en)
            }
        }
    }

    fn poll_task(&mut self, t: usize) {
        self.runnable.lock().unwrap().remove(&t);
        let waker: Waker = Arc::new(TaskWaker {
            id: t,
            set: self.runnable.clone(),
        })
        .into();
        let mut cx = Context::from_waker(&waker);
        let mut fut = match self.tasks[t].take() {
            Some(f) => f,
            None => return,
        };
        self.world.borrow_mut().cur_task = self.gids[t];
        let res = catch_unwind(AssertUnwindSafe(|| fut.as_mut().poll(&mut cx)));
        match res {
            Ok(Poll::Ready(())) => {}
            Ok(Poll::Pending) => {
                self.tasks[t] = Some(fut);
            }
            Err(p) => {
                let msg = if let Some(s) = p.downcast_ref::<&str>() {
                    s.to_string()
                } else if let Some(s) = p.downcast_ref::<String>() {
                    s.clone()
                } else {
                    "panic".to_string()
                };
                self.panics.push((self.gids[t], msg));
                // the future is poisoned: forget it rather than running its
                // destructors in a half-unwound state
                std::mem::forget(fut);
            }
        }
    }

    /// one scheduler step; returns false when nothing is enabled
    pub fn step(&mut self) -> bool {
        let en = self.enabled();
        if en.is_empty() {
            return false;
        }
        let i = self.pick(&en);
        self.choices.push((i, en.len()));
        self.chosen.push(en[i]);
        let live = self.tasks.iter().filter(|t| t.is_some()).count();
        if live > self.max_concurrency_seen {
            self.max_concurrency_seen = live;
        }
        match en[i] {
            Choice::Task(t) => self.poll_task(t),
            Choice::Req(r) => self.world.borrow_mut().complete(r),
            Choice::Spawn => {
                let (gid, mk) = self.queue.pop_front().unwrap();
                let fut = mk();
                self.tasks.push(Some(fut));
                self.gids.push(gid);
                let t = self.tasks.len() - 1;
                // first poll happens right away: the call has started
                self.poll_task(t);
            }
        }
        self.steps += 1;
        if let Some(mut cb) = self.on_step.take() {
            cb(self);
            self.on_step = Some(cb);
        }
        true
    }

    pub fn run(&mut self) -> Outcome {
        loop {
            if self.steps >= self.max_steps {
                return Outcome::Budget(self.live_tasks());
            }
            if !self.step() {
                let live = self.live_tasks();
                if live.is_empty() {
                    return Outcome::AllDone;
                } else {
                    return Outcome::Stuck(live);
                }
            }
        }
    }
}

/// drive a single future to completion with the Fifo policy (used for
/// opening devices, sweeps and other auxiliary sequential calls)
pub fn block_on<'a, T: 'a>(
    world: &WorldRef,
    gid: usize,
    fut: impl Future<Output = T> + 'a,
) -> Result<T, String> {
    let out = std::rc::Rc::new(std::cell::RefCell::new(None));
    let o2 = out.clone();
    let mut ex = Exec::new(world.clone(), Policy::Fifo);
    let boxed: TaskFut<'a> = Box::pin(async move {
        let r = fut.await;
        *o2.borrow_mut() = Some(r);
    });
    let mut holder = Some(boxed);
    ex.enqueue(gid, Box::new(move || holder.take().unwrap()));
    let oc = ex.run();
    if let Some((_, msg)) = ex.panics.first() {
        return Err(format!("panic: {msg}"));
    }
    match oc {
        Outcome::AllDone => {}
        Outcome::Stuck(_) => return Err("stuck".into()),
        Outcome::Budget(_) => return Err("budget".into()),
    }
    let r = out.borrow_mut().take();
    r.ok_or_else(|| "no result".to_string())
}
