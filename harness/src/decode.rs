//! Independent projection bytes -> abstract blocks (trusted base of the
//! binding; written from the qcow2 specification, shares no code with /repo).
use serde_json::{json, Value};
use std::collections::HashMap;

pub const MAGIC: u32 = 0x5146_49fb;
const STAMP_HEAD: [u8; 4] = [0x51, 0x56, 0xD7, 0xA5];
const STAMP_TAIL: [u8; 4] = [0xA5, 0xD7, 0x56, 0x51];
pub const POISON: u8 = 0xEE;
/// refcounts / cluster numbers are clamped to this in the abstract trace
pub const HUGE: i64 = 1 << 30;

#[derive(Clone, Copy, Debug)]
pub struct Geom {
    pub cb: u32,  // cluster bits
    pub ro: u32,  // refcount order
    pub bsb: u32, // block bits (device block size)
    pub vsize: u64,
}

impl Geom {
    pub fn cs(&self) -> usize {
        1 << self.cb
    }
    pub fn bs(&self) -> usize {
        1 << self.bsb
    }
    pub fn bpc(&self) -> usize {
        1 << (self.cb - self.bsb)
    }
    pub fn vblocks(&self) -> usize {
        (self.vsize >> self.bsb) as usize
    }
    pub fn vclusters(&self) -> usize {
        self.vsize.div_ceil(self.cs() as u64) as usize
    }
    pub fn l2n(&self) -> usize {
        self.cs() / 8
    }
    pub fn rbn(&self) -> usize {
        (self.cs() * 8) >> self.ro
    }
}

pub fn token(wid: u32, gb: u32) -> u32 {
    wid * 4096 + (gb % 4096)
}

/// fill one block with the stamp of `tok` (tok 0 = zeros)
pub fn stamp_block(buf: &mut [u8], tok: u32) {
    if tok == 0 {
        buf.fill(0);
        return;
    }
    for unit in buf.chunks_mut(16) {
        unit[0..4].copy_from_slice(&STAMP_HEAD);
        unit[4..8].copy_from_slice(&tok.to_le_bytes());
        unit[8..12].copy_from_slice(&(!tok).to_le_bytes());
        unit[12..16].copy_from_slice(&STAMP_TAIL);
    }
}

/// token of a data block, Some(0) for zeros, None if it is neither
pub fn block_token(buf: &[u8]) -> Option<u32> {
    if buf.iter().all(|b| *b == 0) {
        return Some(0);
    }
    if buf.len() < 16 || buf.len() % 16 != 0 {
        return None;
    }
    if buf[0..4] != STAMP_HEAD || buf[12..16] != STAMP_TAIL {
        return None;
    }
    let tok = u32::from_le_bytes(buf[4..8].try_into().unwrap());
    let ntok = u32::from_le_bytes(buf[8..12].try_into().unwrap());
    if tok != !ntok || tok == 0 {
        return None;
    }
    let first = &buf[0..16];
    if buf.chunks(16).all(|u| u == first) {
        Some(tok)
    } else {
        None
    }
}

/// token as reported in traces: -1 = neither zero nor a whole stamp
pub fn tok_i(buf: &[u8]) -> i64 {
    match block_token(buf) {
        Some(t) => t as i64,
        None => -1,
    }
}

fn be32(b: &[u8], o: usize) -> u32 {
    u32::from_be_bytes(b[o..o + 4].try_into().unwrap())
}
fn be64(b: &[u8], o: usize) -> u64 {
    u64::from_be_bytes(b[o..o + 8].try_into().unwrap())
}

#[derive(Clone, Debug, Default, PartialEq)]
pub struct RawHeader {
    pub version: u32,
    pub backing_off: u64,
    pub backing_len: u32,
    pub cluster_bits: u32,
    pub size: u64,
    pub crypt: u32,
    pub l1_size: u32,
    pub l1_off: u64,
    pub rt_off: u64,
    pub rt_clusters: u32,
    pub nb_snap: u32,
    pub snap_off: u64,
    pub incompat: u64,
    pub compat: u64,
    pub autoclear: u64,
    pub refcount_order: u32,
    pub header_length: u32,
    pub compression: u8,
}

pub fn parse_header(b: &[u8]) -> Option<RawHeader> {
    if b.len() < 72 || be32(b, 0) != MAGIC {
        return None;
    }
    let version = be32(b, 4);
    let mut h = RawHeader {
        version,
        backing_off: be64(b, 8),
        backing_len: be32(b, 16),
        cluster_bits: be32(b, 20),
        size: be64(b, 24),
        crypt: be32(b, 32),
        l1_size: be32(b, 36),
        l1_off: be64(b, 40),
        rt_off: be64(b, 48),
        rt_clusters: be32(b, 56),
        nb_snap: be32(b, 60),
        snap_off: be64(b, 64),
        refcount_order: 4,
        header_length: 72,
        ..Default::default()
    };
    if version >= 3 && b.len() >= 104 {
        h.incompat = be64(b, 72);
        h.compat = be64(b, 80);
        h.autoclear = be64(b, 88);
        h.refcount_order = be32(b, 96);
        h.header_length = be32(b, 100);
        if h.header_length > 104 && b.len() > 104 {
            h.compression = b[104];
        }
    }
    Some(h)
}

pub fn small(v: u64) -> i64 {
    if v >= HUGE as u64 {
        HUGE
    } else {
        v as i64
    }
}

/// abstract header record (all fields small ints)
pub fn header_json(h: &RawHeader) -> Value {
    let cs = 1u64.checked_shl(h.cluster_bits).unwrap_or(0);
    let al = |off: u64| -> (i64, i64) {
        if cs == 0 {
            return (-1, 1);
        }
        (small(off / cs), if off % cs == 0 { 0 } else { 1 })
    };
    let (l1c, l1ua) = al(h.l1_off);
    let (rtc, rtua) = al(h.rt_off);
    json!({
        "ver": h.version, "cb": h.cluster_bits, "ro": h.refcount_order,
        "vsz": small(if cs == 0 {0} else {h.size.div_ceil(cs)}),
        "vszb": small(h.size >> 9),
        "l1c": l1c, "l1ua": l1ua, "l1n": small(h.l1_size as u64),
        "rtc": rtc, "rtua": rtua, "rtn": small(h.rt_clusters as u64),
        "crypt": h.crypt, "inc": small(h.incompat), "snap": h.nb_snap,
        "back": if h.backing_off != 0 {1} else {0},
        "hlen": h.header_length, "comp": h.compression,
    })
}

/// generic 64-bit table entry -> abstract record (all ints)
pub fn entry_json(e: u64, cb: u32, bsb: u32) -> Value {
    let cs = 1u64 << cb;
    let b63 = (e >> 63) & 1;
    let b62 = (e >> 62) & 1;
    let b0 = e & 1;
    let off = e & 0x00ff_ffff_ffff_fe00;
    let lo = (e >> 1) & 0xff; // bits 1..8
    let hi = (e >> 56) & 0x3f; // bits 56..61
    // compressed descriptor
    let x = 62 - (cb - 8);
    let coff = e & ((1u64 << x) - 1);
    let ns = (e & 0x3fff_ffff_ffff_ffff) >> x;
    json!({
        "c": small(off / cs), "ua": if off % cs == 0 {0} else {1},
        "cp": b63, "cm": b62, "z": b0,
        "lo": if lo != 0 {1} else {0}, "hi": if hi != 0 {1} else {0},
        "cc": small(coff / cs), "cs": small((coff % cs) / 512), "cbo": small(coff % 512),
        "ns": small(ns),
        // out of reach under the reading that applies to this entry
        // (the specification multiplies cluster numbers by blocks per cluster in 32 bits: judge the block number)
        "big": if (b62 == 0 && (off >> bsb) >= HUGE as u64) || (b62 == 1 && (coff >> bsb) >= HUGE as u64) {1} else {0},
    })
}

pub fn refcount_at(buf: &[u8], idx: usize, ro: u32) -> u64 {
    match ro {
        0 => ((buf[idx / 8] >> (idx % 8)) & 1) as u64,
        1 => ((buf[idx / 4] >> ((idx % 4) * 2)) & 3) as u64,
        2 => ((buf[idx / 2] >> ((idx % 2) * 4)) & 15) as u64,
        3 => buf[idx] as u64,
        4 => u16::from_be_bytes(buf[idx * 2..idx * 2 + 2].try_into().unwrap()) as u64,
        5 => u32::from_be_bytes(buf[idx * 4..idx * 4 + 4].try_into().unwrap()) as u64,
        _ => u64::from_be_bytes(buf[idx * 8..idx * 8 + 8].try_into().unwrap()),
    }
}

pub fn set_refcount(buf: &mut [u8], idx: usize, ro: u32, v: u64) {
    match ro {
        0 => buf[idx / 8] = (buf[idx / 8] & !(1 << (idx % 8))) | (((v & 1) as u8) << (idx % 8)),
        1 => {
            let s = (idx % 4) * 2;
            buf[idx / 4] = (buf[idx / 4] & !(3 << s)) | (((v & 3) as u8) << s)
        }
        2 => {
            let s = (idx % 2) * 4;
            buf[idx / 2] = (buf[idx / 2] & !(15 << s)) | (((v & 15) as u8) << s)
        }
        3 => buf[idx] = v as u8,
        4 => buf[idx * 2..idx * 2 + 2].copy_from_slice(&(v as u16).to_be_bytes()),
        5 => buf[idx * 4..idx * 4 + 4].copy_from_slice(&(v as u32).to_be_bytes()),
        _ => buf[idx * 8..idx * 8 + 8].copy_from_slice(&v.to_be_bytes()),
    }
}

/// Interner of block contents: every distinct metadata / header block gets a
/// small id and is described once in the trace (`Meta` / `Hdr` events).
pub struct Interner {
    pub geom: Geom,
    meta: HashMap<Vec<u8>, i64>,
    hdr: HashMap<Vec<u8>, i64>,
    /// definitions in id order (line number in the defs file = id)
    pub defs: Vec<Value>,
    pub next_id: i64,
}

#[derive(Clone, Copy, Debug, PartialEq)]
pub struct ABlock {
    pub k: char, // z d m h o
    pub t: i64,
}

impl ABlock {
    pub fn json(&self) -> Value {
        json!([self.k.to_string(), self.t])
    }
}

impl Interner {
    pub fn new(geom: Geom, next_id: i64) -> Self {
        Interner {
            geom,
            meta: HashMap::new(),
            hdr: HashMap::new(),
            defs: Vec::new(),
            next_id,
        }
    }

    /// classify one block; `first` = it is block 0 of the file
    pub fn classify(&mut self, buf: &[u8], first: bool) -> ABlock {
        if let Some(t) = block_token(buf) {
            return if t == 0 {
                ABlock { k: 'z', t: 0 }
            } else {
                ABlock { k: 'd', t: t as i64 }
            };
        }
        if first {
            if let Some(h) = parse_header(buf) {
                if let Some(id) = self.hdr.get(buf) {
                    return ABlock { k: 'h', t: *id };
                }
                let id = self.next_id;
                self.next_id += 1;
                self.hdr.insert(buf.to_vec(), id);
                self.defs
                    .push(json!({"e": "Hdr", "id": id, "h": header_json(&h)}));
                return ABlock { k: 'h', t: id };
            }
        }
        if let Some(id) = self.meta.get(buf) {
            return ABlock { k: 'm', t: *id };
        }
        let id = self.next_id;
        self.next_id += 1;
        self.meta.insert(buf.to_vec(), id);
        let g = self.geom;
        // objects keyed by the entry index; "n" is a sentinel so that the
        // record is never empty
        let mut p = serde_json::Map::new();
        let mut pk = Vec::new();
        p.insert("n".into(), entry_json(0, g.cb, g.bsb));
        for (i, ch) in buf.chunks(8).enumerate() {
            if ch.len() < 8 {
                break;
            }
            let e = u64::from_be_bytes(ch.try_into().unwrap());
            if e != 0 {
                p.insert(i.to_string(), entry_json(e, g.cb, g.bsb));
                pk.push(i);
            }
        }
        let mut r = serde_json::Map::new();
        r.insert("n".into(), json!(0));
        let mut rk = Vec::new();
        let n = (buf.len() * 8) >> g.ro;
        for i in 0..n {
            let v = refcount_at(buf, i, g.ro);
            if v != 0 {
                r.insert(i.to_string(), json!(small(v)));
                rk.push(i);
            }
        }
        self.defs
            .push(json!({"e": "Meta", "id": id, "p": p, "r": r, "rk": rk, "pk": pk}));
        ABlock { k: 'm', t: id }
    }

    /// classify a byte range of a file into blocks
    pub fn classify_range(&mut self, dev: usize, off: u64, bytes: &[u8]) -> Vec<ABlock> {
        let bs = self.geom.bs();
        let mut v = Vec::new();
        for (i, ch) in bytes.chunks(bs).enumerate() {
            let boff = off + (i * bs) as u64;
            if ch.len() < bs {
                // partial trailing block (unaligned length): pad with zeros
                let mut t = ch.to_vec();
                t.resize(bs, 0);
                v.push(self.classify(&t, boff == 0));
                continue;
            }
            let _ = dev;
            v.push(self.classify(ch, boff == 0));
        }
        v
    }
}
