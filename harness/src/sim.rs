//! SimFile: in-memory host file implementing spec/HostFile.tla literally.
//!
//! * bytes of a write are captured when the request is issued, its effect is
//!   applied when the scheduler completes it;
//! * reads are short at end of file; punching keeps the length and zeroes;
//! * every request is recorded (the complete backend request stream is the
//!   observable the envelope specification is checked against);
//! * faults are scripted (by request ordinal, or by predicate).
use qcow2_rs::error::Qcow2Result;
use qcow2_rs::ops::Qcow2IoOps;
use std::cell::RefCell;
use std::collections::HashMap;
use std::future::Future;
use std::pin::Pin;
use std::rc::Rc;
use std::task::{Context, Poll, Waker};

pub type ReqId = usize;

#[derive(Clone, Copy, PartialEq, Eq, Debug)]
pub enum Kind {
    Read,
    Write,
    Punch,
    Fsync,
}

impl Kind {
    pub fn code(&self) -> &'static str {
        match self {
            Kind::Read => "R",
            Kind::Write => "W",
            Kind::Punch => "P",
            Kind::Fsync => "S",
        }
    }
}

#[derive(Clone, Debug, PartialEq)]
pub enum ReqState {
    InFlight,
    Ok(usize),
    Err,
}

#[derive(Clone, Debug)]
pub struct Req {
    pub id: ReqId,
    pub dev: usize,
    pub kind: Kind,
    pub off: u64,
    pub len: usize,
    /// write: bytes captured at issue; read: bytes returned at completion
    pub data: Vec<u8>,
    pub buf_addr: usize,
    pub task: usize,
    pub state: ReqState,
    /// bytes actually applied to the file (writes/punches); None = no effect
    pub applied: Option<(u64, Vec<u8>)>,
    pub flags: u32,
    /// index of the trace event (Req) in World.events
    pub seq_issue: usize,
}

#[derive(Clone, Debug, Default)]
pub struct FileState {
    pub data: Vec<u8>,
    pub read_only: bool,
}

#[derive(Clone, Debug, PartialEq)]
pub enum FaultMode {
    /// request fails, no effect
    Err,
    /// write fails after a prefix of its blocks was applied
    Partial,
}

#[derive(Clone, Debug, Default)]
pub struct FaultPlan {
    /// fail the k-th issued request (ordinal over the whole run, 0-based)
    pub by_ordinal: HashMap<usize, FaultMode>,
    /// every punch request fails ("unsupported") -> library must fall back
    pub punch_unsupported: bool,
    /// fail all requests while set (used for "backend down" windows)
    pub fail_all: bool,
    /// fail every request of these kinds
    pub fail_kinds: Vec<Kind>,
    /// outage: every request from this ordinal on fails
    pub fail_from: Option<usize>,
}

/// Observer of backend events (the trace writer)
pub trait Observer {
    fn on_issue(&mut self, w: &World, r: &Req);
    fn on_done(&mut self, w: &World, r: &Req, faulted: bool);
}

pub struct World {
    pub files: Vec<FileState>,
    pub reqs: Vec<Req>,
    pub inflight: Vec<ReqId>,
    pub cur_task: usize,
    pub wakers: HashMap<ReqId, Waker>,
    pub fault: FaultPlan,
    pub bs: usize,
    pub obs: Option<Box<dyn Observer>>,
    pub faults_injected: usize,
    /// total bytes ever requested in reads/writes (C14 proportionality)
    pub bytes_requested: u64,
}

impl World {
    pub fn new(bs: usize) -> Self {
        World {
            files: Vec::new(),
            reqs: Vec::new(),
            inflight: Vec::new(),
            cur_task: 0,
            wakers: HashMap::new(),
            fault: FaultPlan::default(),
            bs,
            obs: None,
            faults_injected: 0,
            bytes_requested: 0,
        }
    }

    pub fn add_file(&mut self, data: Vec<u8>, read_only: bool) -> usize {
        self.files.push(FileState { data, read_only });
        self.files.len() - 1
    }

    fn issue(
        &mut self,
        dev: usize,
        kind: Kind,
        off: u64,
        len: usize,
        data: Vec<u8>,
        buf_addr: usize,
        flags: u32,
    ) -> ReqId {
        let id = self.reqs.len();
        let r = Req {
            id,
            dev,
            kind,
            off,
            len,
            data,
            buf_addr,
            task: self.cur_task,
            state: ReqState::InFlight,
            applied: None,
            flags,
            seq_issue: 0,
        };
        self.bytes_requested = self.bytes_requested.saturating_add(len as u64);
        if std::env::var("QV_DUMP0").is_ok() && off == 0 && kind == Kind::Write {
            eprintln!("W off=0 len={} task={} bytes={:02x?}", len, self.cur_task, &r.data[..r.data.len().min(128)]);
        }
        self.reqs.push(r);
        self.inflight.push(id);
        if let Some(mut o) = self.obs.take() {
            let r = self.reqs[id].clone();
            o.on_issue(self, &r);
            self.obs = Some(o);
        }
        id
    }

    fn want_fault(&self, r: &Req) -> Option<FaultMode> {
        if let Some(m) = self.fault.by_ordinal.get(&r.id) {
            return Some(m.clone());
        }
        if self.fault.fail_all || self.fault.fail_kinds.contains(&r.kind) {
            return Some(FaultMode::Err);
        }
        if matches!(self.fault.fail_from, Some(n) if r.id >= n) {
            return Some(FaultMode::Err);
        }
        if self.fault.punch_unsupported && r.kind == Kind::Punch {
            return Some(FaultMode::Err);
        }
        None
    }

    /// Complete an in-flight request: apply its effect and wake the issuer
    pub fn complete(&mut self, id: ReqId) {
        let pos = self
            .inflight
            .iter()
            .position(|x| *x == id)
            .expect("complete: not in flight");
        self.inflight.remove(pos);
        let mut r = self.reqs[id].clone();
        let fault = self.want_fault(&r);
        let bs = self.bs;
        // offsets beyond what a Vec can hold are backend errors, not panics
        let too_big = r.off.checked_add(r.len as u64).map(|e| e > (1u64 << 34)).unwrap_or(true);
        let faulted = fault.is_some() || (too_big && r.kind != Kind::Fsync);
        if faulted {
            if fault.is_some() {
                self.faults_injected += 1;
            }
            r.state = ReqState::Err;
            if fault == Some(FaultMode::Partial) && r.kind == Kind::Write && r.len >= 2 * bs {
                // first half of the blocks reaches the file
                let n = (r.len / bs / 2) * bs;
                let part = r.data[..n].to_vec();
                Self::apply_write(&mut self.files[r.dev].data, r.off, &part);
                r.applied = Some((r.off, part));
            }
        } else {
            match r.kind {
                Kind::Read => {
                    let f = &self.files[r.dev].data;
                    let flen = f.len() as u64;
                    let n = if r.off >= flen {
                        0
                    } else {
                        std::cmp::min(r.len as u64, flen - r.off) as usize
                    };
                    r.data = if n == 0 { Vec::new() } else { f[r.off as usize..r.off as usize + n].to_vec() };
                    r.state = ReqState::Ok(n);
                }
                Kind::Write => {
                    let d = r.data.clone();
                    Self::apply_write(&mut self.files[r.dev].data, r.off, &d);
                    r.applied = Some((r.off, d));
                    r.state = ReqState::Ok(r.len);
                }
                Kind::Punch => {
                    // keeps the length; zeroes what exists
                    let f = &mut self.files[r.dev].data;
                    let flen = f.len() as u64;
                    if r.off < flen {
                        let end = std::cmp::min(flen, r.off + r.len as u64) as usize;
                        for b in &mut f[r.off as usize..end] {
                            *b = 0;
                        }
                        r.applied = Some((r.off, vec![0u8; end - r.off as usize]));
                    } else {
                        r.applied = Some((r.off, Vec::new()));
                    }
                    r.state = ReqState::Ok(0);
                }
                Kind::Fsync => {
                    r.state = ReqState::Ok(0);
                }
            }
        }
        self.reqs[id] = r.clone();
        if let Some(mut o) = self.obs.take() {
            o.on_done(self, &r, faulted);
            self.obs = Some(o);
        }
        if let Some(w) = self.wakers.remove(&id) {
            w.wake();
        }
    }

    fn apply_write(f: &mut Vec<u8>, off: u64, d: &[u8]) {
        let end = off as usize + d.len();
        if f.len() < end {
            f.resize(end, 0);
        }
        f[off as usize..end].copy_from_slice(d);
    }
}

pub type WorldRef = Rc<RefCell<World>>;

#[derive(Clone)]
pub struct SimFile {
    pub w: WorldRef,
    pub dev: usize,
}

struct Completion {
    w: WorldRef,
    id: ReqId,
}

impl Future for Completion {
    type Output = (ReqState, Vec<u8>);
    fn poll(self: Pin<&mut Self>, cx: &mut Context<'_>) -> Poll<Self::Output> {
        let mut w = self.w.borrow_mut();
        let st = w.reqs[self.id].state.clone();
        match st {
            ReqState::InFlight => {
                w.wakers.insert(self.id, cx.waker().clone());
                Poll::Pending
            }
            s => {
                let data = if w.reqs[self.id].kind == Kind::Read {
                    w.reqs[self.id].data.clone()
                } else {
                    Vec::new()
                };
                Poll::Ready((s, data))
            }
        }
    }
}

impl SimFile {
    pub fn new(w: &WorldRef, dev: usize) -> Self {
        SimFile { w: w.clone(), dev }
    }
    async fn submit(
        &self,
        kind: Kind,
        off: u64,
        len: usize,
        data: Vec<u8>,
        addr: usize,
        flags: u32,
    ) -> (ReqState, Vec<u8>) {
        let id = self
            .w
            .borrow_mut()
            .issue(self.dev, kind, off, len, data, addr, flags);
        Completion {
            w: self.w.clone(),
            id,
        }
        .await
    }
}

impl Qcow2IoOps for SimFile {
    async fn read_to(&self, offset: u64, buf: &mut [u8]) -> Qcow2Result<usize> {
        let (st, data) = self
            .submit(
                Kind::Read,
                offset,
                buf.len(),
                Vec::new(),
                buf.as_ptr() as usize,
                0,
            )
            .await;
        match st {
            ReqState::Ok(n) => {
                buf[..n].copy_from_slice(&data[..n]);
                Ok(n)
            }
            _ => Err("simfile: injected read failure".into()),
        }
    }

    async fn write_from(&self, offset: u64, buf: &[u8]) -> Qcow2Result<()> {
        let (st, _) = self
            .submit(
                Kind::Write,
                offset,
                buf.len(),
                buf.to_vec(),
                buf.as_ptr() as usize,
                0,
            )
            .await;
        match st {
            ReqState::Ok(_) => Ok(()),
            _ => Err("simfile: injected write failure".into()),
        }
    }

    async fn fallocate(&self, offset: u64, len: usize, flags: u32) -> Qcow2Result<()> {
        let (st, _) = self
            .submit(Kind::Punch, offset, len, Vec::new(), 0, flags)
            .await;
        match st {
            ReqState::Ok(_) => Ok(()),
            _ => Err("simfile: punch failed/unsupported".into()),
        }
    }

    async fn fsync(&self, offset: u64, len: usize, flags: u32) -> Qcow2Result<()> {
        let (st, _) = self
            .submit(Kind::Fsync, offset, len, Vec::new(), 0, flags)
            .await;
        match st {
            ReqState::Ok(_) => Ok(()),
            _ => Err("simfile: injected fsync failure".into()),
        }
    }
}
