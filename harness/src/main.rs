mod backends;
mod codec;
mod decode;
mod exec;
mod guest;
mod imgbuild;
mod mutate;
mod scen;
mod sim;

use serde_json::{json, Value};
use std::io::{BufRead, Write};

/// run one scenario; returns (events, summary, defs, next id)
fn run_one(sc: scen::Scenario, next_id: i64) -> (Vec<Value>, Value, Vec<Value>, i64) {
    let name = sc.name.clone();
    match scen::Runner::new(sc, next_id) {
        Ok(mut r) => {
            r.run();
            r.patch_maxb();
            let ev = std::mem::take(&mut r.sink.borrow_mut().ev);
            let defs = std::mem::take(&mut r.sink.borrow_mut().intern.defs);
            let nid = r.sink.borrow().intern.next_id;
            let summ = json!({"name": name, "events": ev.len(), "stuck": r.stuck, "panicked": r.panicked, "probe_mismatch": r.probe_mismatch,
                "notes": r.outcome, "max_conc": r.max_conc,
                "sched": r.schedules.iter().map(|s| s.iter().map(|c| c.to_json()).collect::<Vec<_>>()).collect::<Vec<_>>(),
                "reqs": r.world.borrow().reqs.len(), "faults": r.world.borrow().faults_injected,
                "bytes_requested": r.world.borrow().bytes_requested,
                "file_kib": r.world.borrow().files.iter().map(|f| f.data.len()).sum::<usize>() >> 10});
            // a stuck/panicked device must not be dropped normally
            if r.stuck || r.panicked {
                std::mem::forget(r);
            }
            (ev, summ, defs, nid)
        }
        Err(e) => (vec![], json!({"name": name, "open_failed": true, "msg": e}), vec![], next_id),
    }
}

/// C14: every scenario in its own process with an address-space limit, so
/// that an abort (allocation failure, stack overflow, segfault) or a hang in
/// the code under test is data and not the end of the harness
fn run_isolated(sc: scen::Scenario, next_id: i64, tmp: &str) -> Result<(Vec<Value>, Value, Vec<Value>, i64), String> {
    let _ = std::fs::remove_file(tmp);
    let pid = unsafe { libc::fork() };
    if pid == 0 {
        unsafe {
            let lim = libc::rlimit { rlim_cur: 3 << 30, rlim_max: 3 << 30 };
            libc::setrlimit(libc::RLIMIT_AS, &lim);
            libc::alarm(20);
        }
        let base = CUR.load(std::sync::atomic::Ordering::Relaxed);
        PEAK.store(base, std::sync::atomic::Ordering::Relaxed);
        let r = std::panic::catch_unwind(std::panic::AssertUnwindSafe(|| run_one(sc, next_id)));
        let code = match r {
            Ok((ev, mut summ, defs, nid)) => {
                summ["peak_kib"] = json!((PEAK.load(std::sync::atomic::Ordering::Relaxed).saturating_sub(base)) >> 10);
                let v = json!({"ev": ev, "summ": summ, "defs": defs, "nid": nid});
                std::fs::write(tmp, v.to_string()).map(|_| 0).unwrap_or(3)
            }
            Err(_) => 4,
        };
        unsafe { libc::_exit(code) };
    }
    let mut status = 0;
    unsafe { libc::waitpid(pid, &mut status, 0) };
    if libc::WIFEXITED(status) && libc::WEXITSTATUS(status) == 0 {
        let txt = std::fs::read_to_string(tmp).map_err(|e| e.to_string())?;
        let v: Value = serde_json::from_str(&txt).map_err(|e| e.to_string())?;
        Ok((v["ev"].as_array().cloned().unwrap_or_default(), v["summ"].clone(),
            v["defs"].as_array().cloned().unwrap_or_default(), v["nid"].as_i64().unwrap_or(next_id)))
    } else if libc::WIFSIGNALED(status) {
        Err(format!("killed by signal {}", libc::WTERMSIG(status)))
    } else {
        Err(format!("exit code {}", libc::WEXITSTATUS(status)))
    }
}

fn run_scenarios(inp: &str, out: &str) -> i32 {
    let f = std::fs::File::open(inp).expect("open scenarios");
    let rd = std::io::BufReader::new(f);
    let mut of = std::io::BufWriter::new(std::fs::File::create(out).expect("create trace"));
    let mut n = 0;
    let mut df = std::io::BufWriter::new(std::fs::File::create(format!("{out}.defs")).expect("create defs"));
    let mut next_id: i64 = 1;
    for line in rd.lines() {
        let line = line.unwrap();
        if line.trim().is_empty() {
            continue;
        }
        let sc: scen::Scenario = match serde_json::from_str(&line) {
            Ok(s) => s,
            Err(e) => {
                eprintln!("bad scenario: {e}: {line}");
                return 2;
            }
        };
        let name = sc.name.clone();
        n += 1;
        let t0 = std::time::Instant::now();
        let base = CUR.load(std::sync::atomic::Ordering::Relaxed);
        PEAK.store(base, std::sync::atomic::Ordering::Relaxed);
        let isolate = std::env::var("QV_ISOLATE").is_ok();
        if isolate {
            match run_isolated(sc, next_id, &format!("{out}.child")) {
                Ok((ev, summ, defs, nid)) => {
                    for e in ev {
                        writeln!(of, "{}", e).unwrap();
                    }
                    for d in defs {
                        writeln!(df, "{}", d).unwrap();
                    }
                    next_id = nid;
                    let mut s = summ;
                    s["ms"] = json!(t0.elapsed().as_millis() as u64);
                    println!("{}", s);
                }
                Err(why) => println!("{}", json!({"name": name, "crashed": why})),
            }
            continue;
        }
        // schedule sweep: many cheap runs, the trace of one is kept
        let mut sc = sc;
        let mut swept = 0;
        let mut hit = false;
        for i in 1..=sc.sched_sweep {
            let mut alt = sc.clone();
            alt.sched.seed = sc.sched.seed.wrapping_mul(31).wrapping_add(i as u64 * 7919);
            alt.sched.policy = if i % 3 == 0 { "pct".into() } else { "random".into() };
            alt.sched_sweep = 0;
            let try_sc = alt.clone();
            let r = std::panic::catch_unwind(std::panic::AssertUnwindSafe(|| run_one(try_sc, next_id)));
            swept += 1;
            if let Ok((_, summ, _, _)) = &r {
                if summ["stuck"] == true || summ["panicked"] == true || summ["probe_mismatch"] == true {
                    sc = alt;
                    hit = true;
                    break;
                }
            }
        }
        sc.sched_sweep = 0;
        let res = std::panic::catch_unwind(std::panic::AssertUnwindSafe(|| run_one(sc, next_id)));
        let res = res.map(|(ev, mut summ, defs, nid)| {
            if swept > 0 {
                summ["sweep"] = json!(swept);
                summ["sweep_hit"] = json!(hit);
            }
            (ev, summ, defs, nid)
        });
        match res {
            Ok((ev, summ, defs, nid)) => {
                for e in ev {
                    writeln!(of, "{}", e).unwrap();
                }
                for d in defs {
                    writeln!(df, "{}", d).unwrap();
                }
                next_id = nid;
                let mut s = summ;
                s["ms"] = json!(t0.elapsed().as_millis() as u64);
                s["peak_kib"] = json!((PEAK.load(std::sync::atomic::Ordering::Relaxed).saturating_sub(base)) >> 10);
                println!("{}", s);
            }
            Err(_) => {
                // a panic outside a task (harness defect or library panic in a
                // synchronous path)
                println!("{}", json!({"name": name, "harness_panic": true}));
            }
        }
    }
    let _: Value = json!(n);
    0
}

/// counting allocator: peak heap use per scenario (C14: memory must stay in
/// proportion to the file and the request)
struct Counting;
static CUR: std::sync::atomic::AtomicUsize = std::sync::atomic::AtomicUsize::new(0);
static PEAK: std::sync::atomic::AtomicUsize = std::sync::atomic::AtomicUsize::new(0);
unsafe impl std::alloc::GlobalAlloc for Counting {
    unsafe fn alloc(&self, l: std::alloc::Layout) -> *mut u8 {
        use std::sync::atomic::Ordering::Relaxed;
        let p = std::alloc::System.alloc(l);
        if !p.is_null() {
            let c = CUR.fetch_add(l.size(), Relaxed) + l.size();
            PEAK.fetch_max(c, Relaxed);
        }
        p
    }
    unsafe fn dealloc(&self, p: *mut u8, l: std::alloc::Layout) {
        CUR.fetch_sub(l.size(), std::sync::atomic::Ordering::Relaxed);
        std::alloc::System.dealloc(p, l)
    }
}
#[global_allocator]
static GLOBAL: Counting = Counting;

struct StderrLog;
impl log::Log for StderrLog {
    fn enabled(&self, _m: &log::Metadata) -> bool {
        true
    }
    fn log(&self, r: &log::Record) {
        eprintln!("[{}] {}", r.level(), r.args());
    }
    fn flush(&self) {}
}
static LOGGER: StderrLog = StderrLog;

fn main() {
    if let Ok(l) = std::env::var("QV_LOG") {
        let _ = log::set_logger(&LOGGER);
        log::set_max_level(match l.as_str() {
            "trace" => log::LevelFilter::Trace,
            "debug" => log::LevelFilter::Debug,
            _ => log::LevelFilter::Info,
        });
    }
    // library panics are data; keep stderr quiet unless asked
    if std::env::var("QV_PANIC_VERBOSE").is_err() {
        std::panic::set_hook(Box::new(|_| {}));
    }
    let args: Vec<String> = std::env::args().collect();
    let code = match args.get(1).map(|s| s.as_str()) {
        Some("run") => run_scenarios(&args[2], &args[3]),
        Some("codec") => codec::run(&args[2]),
        Some("backends") => backends::run(&args[2], &args[3]),
        Some("guest") => guest::run(&args[2], &args[3]),
        _ => {
            eprintln!("usage: qv run <scenarios.ndjson> <trace.ndjson>");
            2
        }
    };
    std::process::exit(code);
}
