mod decode;
mod exec;
mod imgbuild;
mod scen;
mod sim;

use serde_json::{json, Value};
use std::io::{BufRead, Write};

fn run_scenarios(inp: &str, out: &str) -> i32 {
    let f = std::fs::File::open(inp).expect("open scenarios");
    let rd = std::io::BufReader::new(f);
    let mut of = std::io::BufWriter::new(std::fs::File::create(out).expect("create trace"));
    let mut n = 0;
    let mut df = std::io::BufWriter::new(std::fs::File::create(format!("{out}.defs")).expect("create defs"));
    let mut next_id: i64 = 1;
    for line in rd.lines() {
        let line = line.unwrap();
        if line.trim().is_empty() {
            continue;
        }
        let sc: scen::Scenario = match serde_json::from_str(&line) {
            Ok(s) => s,
            Err(e) => {
                eprintln!("bad scenario: {e}: {line}");
                return 2;
            }
        };
        let name = sc.name.clone();
        n += 1;
        let t0 = std::time::Instant::now();
        let res = std::panic::catch_unwind(std::panic::AssertUnwindSafe(|| {
            match scen::Runner::new(sc, next_id) {
                Ok(mut r) => {
                    r.run();
                    r.patch_maxb();
                    let ev = std::mem::take(&mut r.sink.borrow_mut().ev);
                    let defs = std::mem::take(&mut r.sink.borrow_mut().intern.defs);
                    let nid = r.sink.borrow().intern.next_id;
                    let summ = json!({"name": name, "events": ev.len(), "stuck": r.stuck, "panicked": r.panicked,
                        "notes": r.outcome, "max_conc": r.max_conc,
                        "sched": r.schedules.iter().map(|s| s.iter().map(|c| c.to_json()).collect::<Vec<_>>()).collect::<Vec<_>>(),
                        "reqs": r.world.borrow().reqs.len(), "faults": r.world.borrow().faults_injected});
                    // a stuck/panicked device must not be dropped normally
                    if r.stuck || r.panicked {
                        std::mem::forget(r);
                    }
                    (ev, summ, defs, nid)
                }
                Err(e) => {
                    (vec![], json!({"name": name, "open_failed": true, "msg": e}), vec![], next_id)
                }
            }
        }));
        match res {
            Ok((ev, summ, defs, nid)) => {
                for e in ev {
                    writeln!(of, "{}", e).unwrap();
                }
                for d in defs {
                    writeln!(df, "{}", d).unwrap();
                }
                next_id = nid;
                let mut s = summ;
                s["ms"] = json!(t0.elapsed().as_millis() as u64);
                println!("{}", s);
            }
            Err(_) => {
                // a panic outside a task (harness defect or library panic in a
                // synchronous path)
                println!("{}", json!({"name": name, "harness_panic": true}));
            }
        }
    }
    let _: Value = json!(n);
    0
}

struct StderrLog;
impl log::Log for StderrLog {
    fn enabled(&self, _m: &log::Metadata) -> bool {
        true
    }
    fn log(&self, r: &log::Record) {
        eprintln!("[{}] {}", r.level(), r.args());
    }
    fn flush(&self) {}
}
static LOGGER: StderrLog = StderrLog;

fn main() {
    if let Ok(l) = std::env::var("QV_LOG") {
        let _ = log::set_logger(&LOGGER);
        log::set_max_level(match l.as_str() {
            "trace" => log::LevelFilter::Trace,
            "debug" => log::LevelFilter::Debug,
            _ => log::LevelFilter::Info,
        });
    }
    // library panics are data; keep stderr quiet unless asked
    if std::env::var("QV_PANIC_VERBOSE").is_err() {
        std::panic::set_hook(Box::new(|_| {}));
    }
    let args: Vec<String> = std::env::args().collect();
    let code = match args.get(1).map(|s| s.as_str()) {
        Some("run") => run_scenarios(&args[2], &args[3]),
        _ => {
            eprintln!("usage: qv run <scenarios.ndjson> <trace.ndjson>");
            2
        }
    };
    std::process::exit(code);
}
