//! C19: run the request sequences printed by spec/HostFile.tla on the real
//! backends (tokio, sync, io_uring; buffered and, where the file system
//! allows it, direct) and on SimFile, and compare every result, the final
//! content and the final length with what the specification expects.
use crate::exec::block_on;
use crate::sim::{SimFile, World};
use qcow2_rs::helpers::Qcow2IoBuf;
use qcow2_rs::ops::Qcow2IoOps;
use serde_json::{json, Value};
use std::cell::RefCell;
use std::io::BufRead;
use std::path::{Path, PathBuf};
use std::rc::Rc;

/// bytes per block of the vectors: 512, or - QV_UNIT - a multiple of it, which
/// turns the same request sequences into large requests (several MiB)
fn unit() -> usize {
    std::env::var("QV_UNIT").ok().and_then(|v| v.parse().ok()).unwrap_or(512)
}

/// run one vector on a backend; returns the list of disagreements
async fn run_vec<T: Qcow2IoOps>(io: &T, v: &Value) -> Vec<String> {
    #[allow(non_snake_case)]
    let BS = unit();
    let mut bad = Vec::new();
    for (k, op) in v["ops"].as_array().unwrap().iter().enumerate() {
        let off = op["off"].as_u64().unwrap() * BS as u64;
        let n = op["n"].as_u64().unwrap() as usize;
        match op["op"].as_str().unwrap() {
            "W" => {
                let mut buf = Qcow2IoBuf::<u8>::new(n * BS);
                buf.fill(op["id"].as_u64().unwrap() as u8);
                if let Err(e) = io.write_from(off, &buf).await {
                    bad.push(format!("op {k} write failed: {e:?}"));
                }
            }
            "R" => {
                if n == 0 {
                    let mut e: [u8; 0] = [];
                    match io.read_to(off, &mut e).await {
                        Ok(0) => {}
                        r => bad.push(format!("op {k} zero-length read -> {r:?}")),
                    }
                    continue;
                }
                let mut buf = Qcow2IoBuf::<u8>::new(n * BS);
                buf.fill(0xEE);
                match io.read_to(off, &mut buf).await {
                    Ok(got) => {
                        let want = op["res"].as_u64().unwrap() as usize * BS;
                        if got != want {
                            bad.push(format!("op {k} read returned {got} bytes, expected {want}"));
                        } else {
                            for (i, d) in op["data"].as_array().unwrap().iter().enumerate() {
                                let id = d.as_u64().unwrap() as u8;
                                if buf[i * BS..(i + 1) * BS].iter().any(|b| *b != id) {
                                    bad.push(format!("op {k} read block {i}: expected content of write {id}"));
                                }
                            }
                        }
                    }
                    Err(e) => bad.push(format!("op {k} read failed: {e:?}")),
                }
            }
            "P" => {
                // both flavours of the request: plain punch and FALLOCATE_ZERO_RANGE (same contract:
                // the range reads as zeros, the file length stays)
                let flags = if (k + v["ops"].as_array().unwrap().len()) % 2 == 1 {
                    qcow2_rs::ops::Qcow2OpsFlags::FALLOCATE_ZERO_RANGE
                } else {
                    0
                };
                if let Err(e) = io.fallocate(off, n * BS, flags).await {
                    bad.push(format!("op {k} punch failed: {e:?}"));
                }
            }
            _ => {
                if let Err(e) = io.fsync(0, usize::MAX, 0).await {
                    bad.push(format!("op {k} fsync failed: {e:?}"));
                }
            }
        }
    }
    bad
}

fn check_final(bytes: &[u8], v: &Value) -> Vec<String> {
    let mut bad = Vec::new();
    let fin = v["final"].as_array().unwrap();
    #[allow(non_snake_case)]
    let BS = unit();
    if bytes.len() != fin.len() * BS {
        bad.push(format!("final length {} != {}", bytes.len(), fin.len() * BS));
        return bad;
    }
    for (i, d) in fin.iter().enumerate() {
        let id = d.as_u64().unwrap() as u8;
        if bytes[i * BS..(i + 1) * BS].iter().any(|b| *b != id) {
            bad.push(format!("final block {i}: expected content of write {id}"));
        }
    }
    bad
}

fn fresh(path: &Path) {
    let _ = std::fs::remove_file(path);
    std::fs::File::create(path).expect("create temp file");
}

pub fn run(inp: &str, dir: &str) -> i32 {
    let vecs: Vec<Value> = std::io::BufReader::new(std::fs::File::open(inp).expect("open vectors"))
        .lines()
        .map(|l| l.unwrap())
        .filter(|l| !l.trim().is_empty())
        .map(|l| serde_json::from_str(&l).expect("vector json"))
        .collect();
    std::fs::create_dir_all(dir).unwrap();
    let path: PathBuf = Path::new(dir).join("backend.img");
    let mut nbad = 0;
    let mut counts = serde_json::Map::new();
    let mut report = |be: &str, v: &Value, bad: Vec<String>, nbad: &mut usize| {
        if !bad.is_empty() {
            *nbad += 1;
            println!("{}", json!({"backend": be, "vec": v, "bad": bad}));
        }
    };
    // SimFile (the reference implementation the other checks run against)
    for v in vecs.iter() {
        let world = Rc::new(RefCell::new(World::new(512)));
        world.borrow_mut().add_file(Vec::new(), false);
        let io = SimFile::new(&world, 0);
        let mut bad = block_on(&world, 0, run_vec(&io, v)).unwrap_or_else(|e| vec![format!("executor: {e}")]);
        bad.extend(check_final(&world.borrow().files[0].data, v));
        report("sim", v, bad, &mut nbad);
    }
    counts.insert("sim".into(), json!(vecs.len()));
    // tokio (buffered only: the backend asserts !dio)
    {
        let rt = tokio::runtime::Runtime::new().unwrap();
        rt.block_on(async {
            for v in vecs.iter() {
                fresh(&path);
                let io = qcow2_rs::tokio_io::Qcow2IoTokio::new(&path, false, false).await;
                let mut bad = run_vec(&io, v).await;
                drop(io);
                bad.extend(check_final(&std::fs::read(&path).unwrap(), v));
                report("tokio", v, bad, &mut nbad);
            }
        });
        counts.insert("tokio".into(), json!(vecs.len()));
    }
    // sync, buffered and direct
    for dio in [false, true] {
        let rt = tokio::runtime::Builder::new_current_thread().build().unwrap();
        let mut first_err = None;
        let mut done = 0;
        rt.block_on(async {
            for v in vecs.iter() {
                fresh(&path);
                let io = qcow2_rs::sync_io::Qcow2IoSync::new(&path, false, dio);
                let mut bad = run_vec(&io, v).await;
                drop(io);
                bad.extend(check_final(&std::fs::read(&path).unwrap(), v));
                if dio && done == 0 && bad.iter().any(|b| b.contains("failed")) {
                    // the file system refuses O_DIRECT requests: not exercised
                    first_err = Some(bad[0].clone());
                    break;
                }
                done += 1;
                report(if dio { "sync-dio" } else { "sync" }, v, bad, &mut nbad);
            }
        });
        counts.insert(if dio { "sync-dio" } else { "sync" }.into(), json!(done));
        if let Some(e) = first_err {
            counts.insert("sync-dio-not-exercised".into(), json!(e));
        }
    }
    // io_uring
    {
        let vecs2 = vecs.clone();
        let path2 = path.clone();
        let r = std::panic::catch_unwind(move || {
            let mut out = Vec::new();
            tokio_uring::start(async {
                for v in vecs2.iter() {
                    fresh(&path2);
                    let io = qcow2_rs::uring::Qcow2IoUring::new(&path2, false, false).await;
                    let mut bad = run_vec(&io, v).await;
                    drop(io);
                    bad.extend(check_final(&std::fs::read(&path2).unwrap(), v));
                    out.push(bad);
                }
            });
            out
        });
        match r {
            Ok(out) => {
                for (v, bad) in vecs.iter().zip(out) {
                    report("uring", v, bad, &mut nbad);
                }
                counts.insert("uring".into(), json!(vecs.len()));
            }
            Err(_) => {
                counts.insert("uring-not-exercised".into(), json!("io_uring is not available in this sandbox"));
            }
        }
    }
    let _ = std::fs::remove_file(&path);
    println!("{}", json!({"summary": true, "vectors": vecs.len(), "bad": nbad, "backends": counts}));
    0
}
