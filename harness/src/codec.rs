//! C15: run the library's public meta API on the test vectors printed by
//! spec/Codec.tla and report every disagreement with the expected result.
use qcow2_rs::dev::{Qcow2DevParams, Qcow2Info};
use qcow2_rs::meta::*;
use serde_json::{json, Value};
use std::io::BufRead;

fn info_for(cb: u32, ro: u32, sb: u32) -> Option<(Qcow2Info, Qcow2Header)> {
    let size = 64u64 << cb;
    let bs = 512usize;
    let (rc_t, rc_b, _) = Qcow2Header::calculate_meta_params(size, cb as usize, ro as u8, bs);
    let clusters = 1 + rc_t.1 + rc_b.1;
    let mut buf = vec![0u8; ((clusters as usize) << cb) + bs];
    Qcow2Header::format_qcow2(&mut buf, size, cb as usize, ro as u8, bs).ok()?;
    let h = Qcow2Header::from_buf(&buf).ok()?;
    let sb = sb.min(cb) as u8;
    let p = Qcow2DevParams::new(9, Some((sb, 2usize << sb)), Some((sb, 2usize << sb)), false, false);
    Qcow2Info::new(&h, &p).ok().map(|i| (i, h))
}

fn sym_off(idx: &Value, cb: u32, inoff: u64) -> u64 {
    let k = idx[0].as_i64().unwrap();
    let d = idx[1].as_u64().unwrap();
    let ci = if k >= 0 { (1u64 << k) + d } else { d };
    (ci << cb) + inoff
}

fn kind_of(m: &Mapping) -> &'static str {
    match m.source {
        MappingSource::DataFile => "data",
        MappingSource::Zero => "zero",
        MappingSource::Unallocated => "unalloc",
        MappingSource::Backing => "backing",
        MappingSource::Compressed => "comp",
    }
}

fn max_of(order: u32) -> u64 {
    if order >= 6 {
        u64::MAX
    } else {
        (1u64 << (1 << order)) - 1
    }
}
fn val_of(order: u32, v: &str) -> u64 {
    match v {
        "zero" => 0,
        "one" => 1,
        "max" => max_of(order),
        _ => max_of(order) - 1,
    }
}

fn check(v: &Value) -> Vec<String> {
    let mut bad = Vec::new();
    let t = v["t"].as_str().unwrap_or("");
    match t {
        "l2std" => {
            let cb = v["cb"].as_u64().unwrap() as u32;
            let (info, _) = info_for(cb, 4, 9).unwrap();
            let off = sym_off(&v["idx"], cb, 0);
            let bits = (v["copied"].as_u64().unwrap() << 63) | off | v["zero"].as_u64().unwrap();
            let e = match L2Entry::try_from_plain(bits, &info) {
                Ok(e) => e,
                Err(e) => {
                    if v["valid"].as_bool().unwrap() {
                        bad.push(format!("valid entry {bits:#x} rejected: {e:?}"));
                    }
                    return bad;
                }
            };
            let m = e.into_mapping(&info, &SplitGuestOffset(0));
            if !v["valid"].as_bool().unwrap() {
                return bad;
            }
            if kind_of(&m) != v["kind"].as_str().unwrap() {
                bad.push(format!("kind {} != {}", kind_of(&m), v["kind"]));
            }
            let alloc = e.allocation(cb).map(|a| a.0);
            if v["alloc"] == 1 && alloc != Some(off) {
                bad.push(format!("allocation {alloc:?} != {off:#x}"));
            }
            if v["alloc"] == 0 && alloc.is_some() {
                bad.push(format!("allocation {alloc:?} for unallocated entry"));
            }
            if v["kind"] == "data" && m.cluster_offset != Some(off) {
                bad.push(format!("data offset {:?} != {off:#x}", m.cluster_offset));
            }
            if m.copied != (v["expcopied"] == 1) {
                bad.push(format!("copied {} != {}", m.copied, v["expcopied"]));
            }
            let back = L2Entry::from_mapping(m, cb).into_plain();
            if back != bits {
                bad.push(format!("from_mapping(into_mapping({bits:#x})) = {back:#x}"));
            }
        }
        "l2comp" => {
            let cb = v["cb"].as_u64().unwrap() as u32;
            let (info, _) = info_for(cb, 4, 9).unwrap();
            let inoff = v["inoff"].as_u64().unwrap();
            let off = sym_off(&v["idx"], cb, inoff);
            let ns = v["ns"].as_u64().unwrap();
            let x = 62 - (cb - 8);
            if ns >= (1 << (cb - 8)) || off >= (1u64 << x) {
                return bad;
            }
            let bits = (1u64 << 62) | (ns << x) | off;
            let e = match L2Entry::try_from_plain(bits, &info) {
                Ok(e) => e,
                Err(e) => {
                    bad.push(format!("valid compressed entry {bits:#x} rejected: {e:?}"));
                    return bad;
                }
            };
            let m = e.into_mapping(&info, &SplitGuestOffset(0));
            if kind_of(&m) != "comp" {
                bad.push(format!("kind {}", kind_of(&m)));
            }
            if m.cluster_offset != Some(off) {
                bad.push(format!("offset {:?} != {off:#x}", m.cluster_offset));
            }
            if m.compressed_length != Some(v["len"].as_u64().unwrap() as usize) {
                bad.push(format!("length {:?} != {}", m.compressed_length, v["len"]));
            }
            let al = e.allocation(cb);
            let exp = (off & !((1u64 << cb) - 1), v["nclusters"].as_u64().unwrap() as usize);
            if al != Some(exp) {
                bad.push(format!("allocation {al:?} != {exp:?}"));
            }
            let back = L2Entry::from_mapping(m, cb).into_plain();
            if back != bits {
                bad.push(format!("from_mapping(into_mapping({bits:#x})) = {back:#x}"));
            }
        }
        "l2resv" => {
            let cb = v["cb"].as_u64().unwrap() as u32;
            let (info, _) = info_for(cb, 4, 9).unwrap();
            let bits = (1u64 << 63) | (5u64 << cb) | (1u64 << v["bit"].as_u64().unwrap());
            if L2Entry::try_from_plain(bits, &info).is_ok() {
                bad.push(format!("entry {bits:#x} with reserved bit {} accepted", v["bit"]));
            }
        }
        "refcount" => {
            let order = v["order"].as_u64().unwrap() as u32;
            let n = v["n"].as_u64().unwrap() as usize;
            let at = v["at"].as_u64().unwrap() as usize;
            let val = val_of(order, v["v"].as_str().unwrap());
            let bg = val_of(order, v["bg"].as_str().unwrap());
            let exp: Vec<u8> = v["bytes"].as_array().unwrap().iter().map(|b| b.as_u64().unwrap() as u8).collect();
            let (info, _) = info_for(12, order, 9).unwrap();
            let size = 512usize;
            let entries = size * 8 >> order;
            // the window sits at the start, in the middle and at the end of the slice
            for w0 in [0usize, (entries / 2) & !7, entries - n] {
                let mut rb = RefBlock::new(order as u8, size, None);
                for i in 0..entries {
                    rb.set(i, RefBlockEntry::try_from_plain(bg, &info).unwrap());
                }
                rb.set(w0 + at, RefBlockEntry::try_from_plain(val, &info).unwrap());
                let raw = unsafe { std::slice::from_raw_parts(rb.as_ptr(), rb.byte_size()) }.to_vec();
                let wbytes = (n << order) / 8;
                let b0 = (w0 << order) / 8;
                if raw[b0..b0 + wbytes] != exp[..] {
                    bad.push(format!("window at {w0}: bytes {:?} != {:?}", &raw[b0..b0 + wbytes], exp));
                }
                // only the addressed entry changed
                let bgbyte = if bg == 0 { 0u8 } else { 0xff };
                if raw[..b0].iter().any(|b| *b != bgbyte) || raw[b0 + wbytes..].iter().any(|b| *b != bgbyte) {
                    bad.push(format!("window at {w0}: bytes outside the window changed"));
                }
                for i in 0..entries {
                    let want = if i == w0 + at { val } else { bg };
                    if rb.get(i).into_plain() != want {
                        bad.push(format!("get({i}) = {} != {want}", rb.get(i).into_plain()));
                        break;
                    }
                }
                // values that do not fit are refused
                if val == max_of(order) && rb.increment(w0 + at).is_ok() {
                    bad.push(format!("increment beyond the maximum of a {}-bit refcount accepted", 1 << order));
                }
                if val == 0 && rb.decrement(w0 + at).is_ok() {
                    bad.push("decrement below 0 accepted".to_string());
                }
            }
        }
        "split" => {
            let cb = v["cb"].as_u64().unwrap() as u32;
            let sb = v["sb"].as_u64().unwrap() as u32;
            let (info, _) = info_for(cb, 4, sb).unwrap();
            let l2n = 1u64 << (cb - 3);
            let (l1, l2, io) = (v["l1"].as_u64().unwrap(), v["l2"].as_u64().unwrap(), v["inoff"].as_u64().unwrap());
            let off = ((l1 * l2n + l2) << cb) + io;
            let s = SplitGuestOffset(off);
            let se = 1u64 << (sb - 3);
            let checks: Vec<(&str, u64, u64)> = vec![
                ("l1_index", s.l1_index(&info) as u64, v["l1_index"].as_u64().unwrap()),
                ("l2_index", s.l2_index(&info) as u64, v["l2_index"].as_u64().unwrap()),
                ("l2_slice_index", s.l2_slice_index(&info) as u64, v["slice_index"].as_u64().unwrap()),
                ("l2_slice_key", s.l2_slice_key(&info) as u64, (l1 * l2n + l2) / se),
                ("l2_slice_key(spec)", v["slice_key_lo"].as_u64().unwrap(), (l1 * l2n + l2) / se),
                ("l2_slice_off_in_table", s.l2_slice_off_in_table(&info) as u64, v["slice_off"].as_u64().unwrap()),
                ("in_cluster_offset", s.in_cluster_offset(&info) as u64, v["in_cluster"].as_u64().unwrap()),
                ("cluster_offset", s.cluster_offset(&info), off - io),
                // index composition reproduces the offset
                ("compose", ((s.l1_index(&info) as u64 * l2n + s.l2_index(&info) as u64) << cb) + s.in_cluster_offset(&info) as u64, off),
                ("compose(slice)", ((s.l2_slice_key(&info) as u64 * se + s.l2_slice_index(&info) as u64) << cb) + s.in_cluster_offset(&info) as u64, off),
            ];
            for (n, got, want) in checks {
                if got != want {
                    bad.push(format!("{n}: {got} != {want} (offset {off:#x})"));
                }
            }
        }
        "header" => {
            let cb = v["cb"].as_u64().unwrap() as u32;
            let ro = v["ro"].as_u64().unwrap() as u32;
            let mut exts: Vec<(u32, Vec<u8>)> = Vec::new();
            for e in v["exts"].as_array().unwrap() {
                match e.as_str().unwrap() {
                    "fmt" => exts.push((0xe279_2aca, b"raw".to_vec())),
                    "feat1" => {
                        let mut d = vec![0u8; 48];
                        d[0] = 0;
                        d[1] = 0;
                        d[2..7].copy_from_slice(b"dirty");
                        exts.push((0x6803_f857, d));
                    }
                    "feat3" => {
                        let mut d = vec![0u8; 144];
                        for (k, (ty, bit, name)) in [(0u8, 1u8, "corrupt"), (1, 0, "lazy refcounts"), (2, 0, "bitmaps")].iter().enumerate() {
                            d[k * 48] = *ty;
                            d[k * 48 + 1] = *bit;
                            d[k * 48 + 2..k * 48 + 2 + name.len()].copy_from_slice(name.as_bytes());
                        }
                        exts.push((0x6803_f857, d));
                    }
                    "featmax" => {
                        let mut d = vec![0u8; 96];
                        d[0] = 1;
                        d[1] = 3;
                        for b in d[2..48].iter_mut() {
                            *b = b'x';
                        }
                        d[48] = 2;
                        d[49] = 7;
                        d[50..55].copy_from_slice(b"short");
                        exts.push((0x6803_f857, d));
                    }
                    "unk0" => exts.push((0x1111_2222, vec![])),
                    "unk5" => exts.push((0x1111_2223, vec![1, 2, 3, 4, 5])),
                    "unk8" => exts.push((0x1111_2224, vec![9; 8])),
                    _ => exts.push((0x1111_2225, (0..13).collect())),
                }
            }
            let bk = v["backing"].as_u64().unwrap() as usize;
            let desc = crate::imgbuild::ImageDesc {
                cb,
                ro,
                vclusters: 16,
                version: 3,
                extensions: exts.clone(),
                backing: if bk == 0 { None } else { Some("b".repeat(bk)) },
                ..Default::default()
            };
            let (img, _) = crate::imgbuild::build(&desc, 512);
            let hb = &img[..img.len().min(65536)];
            let mut h1 = match Qcow2Header::from_buf(hb) {
                Ok(h) => h,
                Err(e) => {
                    bad.push(format!("valid header rejected: {e:?}"));
                    return bad;
                }
            };
            let ser = match h1.serialize_to_buf() {
                Ok(s) => s,
                Err(e) => {
                    bad.push(format!("serialize failed: {e:?}"));
                    return bad;
                }
            };
            let mut padded = ser.clone();
            padded.resize(1 << cb, 0);
            let h2 = match Qcow2Header::from_buf(&padded) {
                Ok(h) => h,
                Err(e) => {
                    bad.push(format!("re-serialised header rejected: {e:?}"));
                    return bad;
                }
            };
            let f = |h: &Qcow2Header| {
                json!([h.version(), h.cluster_bits(), h.size(), h.refcount_order(), h.l1_table_offset(), h.l1_table_entries(),
                       h.reftable_offset(), h.reftable_clusters(), h.crypt_method(), h.nb_snapshots(), h.backing_filename(), h.backing_format()])
            };
            if f(&h1) != f(&h2) {
                bad.push(format!("fields differ after re-serialisation: {} vs {}", f(&h1), f(&h2)));
            }
            if h1.backing_filename().map(|s| s.len()).unwrap_or(0) != bk {
                bad.push(format!("backing file name length {:?} != {bk}", h1.backing_filename().map(|s| s.len())));
            }
            // the extension area survives byte for byte (unknown ones included)
            let ext_area = |b: &[u8], hl: usize| -> Vec<(u32, Vec<u8>)> {
                let mut out = Vec::new();
                let mut p = hl;
                while p + 8 <= b.len() {
                    let ty = u32::from_be_bytes(b[p..p + 4].try_into().unwrap());
                    let ln = u32::from_be_bytes(b[p + 4..p + 8].try_into().unwrap()) as usize;
                    if ty == 0 || p + 8 + ln > b.len() {
                        break;
                    }
                    out.push((ty, b[p + 8..p + 8 + ln].to_vec()));
                    p += 8 + ln.div_ceil(8) * 8;
                }
                out
            };
            let e1 = ext_area(hb, 112);
            let e2 = ext_area(&padded, h2.header_length() as usize);
            if e1 != exts {
                bad.push("builder/decoder disagree on the extension area (tool error)".into());
            }
            // feature tables may be re-serialised in any entry order
            let norm = |v: &Vec<(u32, Vec<u8>)>| -> Vec<(u32, Vec<Vec<u8>>)> {
                v.iter()
                    .map(|(t, d)| {
                        if *t == 0x6803_f857 {
                            let mut c: Vec<Vec<u8>> = d.chunks(48).map(|x| x.to_vec()).collect();
                            c.sort();
                            (*t, c)
                        } else {
                            (*t, vec![d.clone()])
                        }
                    })
                    .collect()
            };
            if norm(&e1) != norm(&e2) {
                bad.push(format!("extensions differ after re-serialisation: {:?} vs {:?}", e1, e2));
            }
        }
        _ => bad.push(format!("unknown vector type {t}")),
    }
    bad
}

pub fn run(inp: &str) -> i32 {
    let f = std::fs::File::open(inp).expect("open vectors");
    let mut n = 0;
    let mut nbad = 0;
    for line in std::io::BufReader::new(f).lines() {
        let line = line.unwrap();
        if line.trim().is_empty() {
            continue;
        }
        let v: Value = serde_json::from_str(&line).expect("vector json");
        n += 1;
        let r = std::panic::catch_unwind(std::panic::AssertUnwindSafe(|| check(&v)));
        let bad = match r {
            Ok(b) => b,
            Err(p) => vec![format!(
                "panic: {}",
                p.downcast_ref::<String>().cloned().or(p.downcast_ref::<&str>().map(|s| s.to_string())).unwrap_or_default()
            )],
        };
        if !bad.is_empty() {
            nbad += 1;
            println!("{}", json!({"vec": v, "bad": bad}));
        }
    }
    println!("{}", json!({"summary": true, "vectors": n, "bad": nbad}));
    0
}
